#!/bin/bash
# selftest.sh <patch.diff> [ID ...]
# Sensitivity self-test: applies a seeded change to a SCRATCH copy of /repo (never to
# /repo itself), builds a scratch copy of the harness against it, runs the quick checks and
# reports which of them caught the change. Not part of any registered command.
set -u
P="$(readlink -f "$1")"; shift
IDS="${*:-C01 C02 C03 C04 C05 C06 C07 C08 C09 C10 C11 C12 C13 C14 C15 C16 C17 C18 C19 C20}"
S=${VST_DIR:-/tmp/vst}
mkdir -p "$S"
exec 9>"$S/.lock"; flock 9
rm -rf "$S/repo" "$S/harness" "$S/verif"
mkdir -p "$S/repo" "$S/verif"
git -C /repo archive HEAD | tar -x -C "$S/repo"
( cd "$S/repo" && git init -q . 2>/dev/null && git apply "$P" ) || { echo "patch does not apply: $P"; exit 2; }
cp -r /verif/harness "$S/harness"
rm -rf "$S/harness/.cargo"
sed -i "s#jsonb = { path = \"/repo\" }#jsonb = { path = \"$S/repo\" }#" "$S/harness/Cargo.toml"
ln -s /verif/corpus "$S/verif/corpus"
export CARGO_NET_OFFLINE=true CARGO_TARGET_DIR="$S/target"
( cd "$S/harness" && cargo build --release --offline >"$S/build.log" 2>&1 ) || { echo "BUILD-FAILED (the change does not compile against the harness)"; tail -5 "$S/build.log"; exit 3; }
caught=""
for id in $IDS; do
  out=$(VERIF_DIR="$S/verif" "$S/target/release/vcheck" $id --tier ${VST_TIER:-quick} 2>&1); rc=$?
  line=$(echo "$out" | grep -E "^$id (quick|thorough)" | head -1)
  echo "$id rc=$rc :: $line"
  if [ $rc -eq 1 ]; then caught="$caught $id"; echo "$out" | grep -v "^KNOWN-FINDING" | grep -v "^$id " | head -3 | cut -c1-260; fi
  if [ $rc -eq 2 ]; then echo "$out" | grep INCONCLUSIVE | head -2 | cut -c1-260; fi
done
echo "CAUGHT-BY:$caught"
rm -rf "$S/repo" "$S/harness" "$S/verif"
