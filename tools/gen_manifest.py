#!/usr/bin/env python3
"""Regenerates /verif/MANIFEST.json from the table below (single source of truth)."""
import json, os, subprocess
HERE = os.path.dirname(os.path.dirname(os.path.abspath(__file__)))

# id -> (technique, level text, level note, design ref)
EXPL = ("Exploration: the property is stated as an executable check over generated cases against an explicit oracle; "
        "it held on everything generated in the run (counts, label distribution and samples are in the evidence file). Not a proof.")
def C(tech, what, trust, ref):
    return (tech, EXPL + " " + what, trust, ref)
CHECKS = {
 "C01": C("property-based differential testing against an independent reference encoder / strict validator + round-trip; enumerated number-width boundaries (proptest)",
          "Generated trees are encoded by the library and compared byte-for-byte with a reference encoder written from the README, validated by a strict reference decoder, decoded by both library decoders and re-encoded.",
          "Trusts the reference encoder/validator in harness/src/model.rs as the documented layout.", "5 C01"),
 "C02": C("property-based differential testing of the text parser against an independent reference parser (RFC 8259 + the named relaxations) over spelled documents, single-token corruptions, token soups and raw bytes (proptest); thorough tier adds a coverage-guided libFuzzer campaign (cargo-fuzz target c02_text) with the same oracle",
          "Spelled documents carry their meaning by construction; corrupted and arbitrary inputs are judged accept-iff-reference-accepts with equal values, never a panic.",
          "Trusts harness/src/textref.rs as the documented language and Rust std's f64 parser as correctly rounded.", "5 C02"),
 "C03": C("property-based round-trip / two independent strict acceptors (reference parser, serde_json) on both renderings; metamorphic pretty-vs-compact relation; enumerated code-point sweep and multi-byte-character offset sweep (proptest)",
          "Both renderings of generated finite documents are parsed by two independent strict parsers, compared with the original, re-parsed by the library and re-encoded; pretty is compared with compact modulo whitespace and its indentation checked.",
          "Trusts textref.rs strict mode and serde_json as RFC 8259 acceptors.", "5 C03"),
 "C04": C("property-based testing of compare against a model comparator over derived triples, all text/binary pairings, plus order laws on the library's own answers (proptest)",
          "Triples derived from one another by small deep mutations are compared through the library in every representation pairing and against a model of the documented order; reflexivity, antisymmetry and transitivity are checked directly.",
          "Trusts cmpmodel.rs doc_cmp as the documented order.", "5 C04"),
 "C05": C("property-based differential testing of every byte-level accessor against ten-line tree functions, with arguments drawn from the document (proptest)",
          "Each accessor on enc(tree) is compared with a tree function; every returned sub-value with enc(sub-tree).",
          "Trusts treefn.rs as the meaning of each accessor.", "5 C05"),
 "C06": C("property-based differential testing of every editor against tree edits, including documented errors, buffer-unchanged-on-error and the same edit appended to a pre-filled buffer (proptest)",
          "Each editor's appended bytes are compared with enc(tree edit) and its Result with the documented error.",
          "Trusts treefn.rs as the meaning of each edit.", "5 C06"),
 "C07": C("stateful model-based property testing: generated operation sequences interpreted against the library and a tree model, invariant after every step (proptest, vec(op)+interpreter)",
          "Programs of 1-12 (40) operations over a pool of documents (editors, extractors, builders incl. 40-pair objects with repeated keys, set functions with a text-form second list, path selections appended to buffers shared along the chain, a rejected call in between); after every step every produced document must be canonical JSONB and byte-equal to the encoding of the model result.",
          "Trusts treefn.rs / pathmodel.rs for each step's result and model.rs's strict validator for canonicity.", "5 C07"),
 "C08": C("property-based differential testing of JSONPath evaluation against a three-valued model evaluator on (document, path) pairs generated together (proptest)",
          "All-mode results split by offsets are compared item by item with a model evaluator over the tree; every selection is repeated into buffers holding an earlier result; every entry point must return Ok or Err, never panic, also for every sequence of up to three path elements built from the public AST types (enumerated). The thorough tier adds a coverage-guided libFuzzer campaign (target c08_eval) with the same oracle.",
          "Trusts pathmodel.rs as the documented meaning; cross-kind ordering comparisons are treated as unspecified.", "5 C08"),
 "C09": C("grammar-based property testing of the JSONPath parser: abstract paths printed in every spelling variant must parse to the intended AST; print/parse round trip; must-reject inputs by construction; token soups and raw bytes for panic-freedom (proptest); thorough tier adds a coverage-guided libFuzzer campaign (cargo-fuzz target c09_path) with the same oracle",
          "Generated ASTs are rendered with random legal spacing/case/quoting and compared structurally (exact number classification) with the parse; invalid-by-construction inputs must be rejected.",
          "Trusts the printer in pathmodel.rs to emit only documented forms.", "5 C09"),
 "C10": C("fault-injection fuzzing of valid encodings (fault sequences, all truncations and all single-bit flips of each generated encoding) and raw bytes with a UTF-8 / no-panic / prefix-rejection oracle; differential text fallback incl. enumerated JSON texts shaped like a scalar encoding (proptest + enumeration); thorough tier adds a coverage-guided libFuzzer campaign (cargo-fuzz target c10_bytes) with the same oracle",
          "Valid encodings are corrupted by generated fault sequences; for each small encoding every truncation offset and every single-bit flip is enumerated; JSON texts must fall back to the text parser's value.",
          "Allocation driven by corrupted counts is not judged.", "5 C10"),
 "C11": C("metamorphic property testing: every document-taking function called with all 2^k text/binary assignments and compared with the all-binary call (proptest)",
          "Strict JSON texts written by the reference writer and their encodings are passed to ~45 functions in every assignment; results must agree.",
          "The all-binary call is the reference (its correctness is other properties' subject).", "5 C11"),
 "C12": C("property-based testing of contains against a model of the @> rules over derived chains, text and binary, plus reflexivity/transitivity laws (proptest)",
          "Chains built by containment-preserving and -breaking mutations are judged against a model; laws are checked on the library's own answers.",
          "Trusts cmpmodel.rs contains().", "5 C12"),
 "C13": C("property-based testing of the array set functions against a list/multiset model, plus partition / idempotence / overlap laws on the library's outputs (proptest)",
          "Pairs built from a small element pool (heavy duplication, re-typed numbers, container elements) are judged against a list model with byte identity.",
          "Trusts treefn.rs list model.", "5 C13"),
 "C14": C("property-based differential testing of comparable-key byte order against the model comparator, with known classes tolerated by exact structural signature (proptest)",
          "key(a).cmp(key(b)) is compared with the library's compare (and both with the model comparator) on derived pairs, sibling pairs and numeric neighbours; the key of a JSON text must be the key of the document it denotes; a disagreement is tolerated as a known finding only when compare is right, both keys are byte-for-byte the documented key format and the first difference has the listed shape.",
          "Same order oracle as C04; cmpmodel.rs ref_key is the documented key format; two known classes (F13, F14a) are tolerated and counted.", "5 C14"),
 "C15": C("relational (metamorphic) property testing across the four selection modes, the convenience functions, existence and predicates (proptest)",
          "Purely relational checks on the library's own answers across modes, from empty and pre-filled buffers.",
          "Needs only the strict validator.", "5 C15"),
 "C16": C("grammar-based property testing of the key-path parser: printed element lists must parse to the intended elements; print/parse round trip; must-reject inputs; raw bytes for panic-freedom (proptest); thorough tier adds a coverage-guided libFuzzer campaign (cargo-fuzz target c16_keypath) with the same oracle",
          "Element lists rendered with every spacing variant are compared with the parse; invalid-by-construction inputs must be rejected.",
          "Trusts the printer in c16.rs.", "5 C16"),
 "C17": C("metamorphic property testing of every buffer-writing function over generated prior buffer contents and batches of calls (proptest)",
          "The buffer after each call must be the buffer before it followed by what the call writes into an empty buffer; offsets likewise; errors leave it untouched.",
          "A function's output into an empty buffer is the reference.", "5 C17"),
 "C18": C("enumeration of 32-bit patterns (exhaustive in the thorough tier) + property-based testing on 64-bit boundary/random values, malformed bytes and number triples against an exact i128/f64 comparator (proptest)",
          "The thorough tier enumerates all 2^32 i32, u32 and f32-widened patterns through encode/decode/views; 64-bit values, malformed byte strings and order triples are sampled with boundary-biased generators.",
          "Trusts Rust's i128 arithmetic and f64 primitives.", "5 C18"),
 "C19": C("property-based structural comparison of the serde_json conversions with the tree and with an independent strict parse of an independent rendering; inverse round trip (proptest)",
          "to_serde_json / From conversions are compared structurally with exact number classification, with the strict reference parse of an independent rendering and of the library's own rendering; conversions back must give the original.",
          "Trusts serde_json's Value accessors.", "5 C19"),
 "C20": C("child-process probing of every recursive and iterative operation over a doubling depth schedule (fault observed as process death), plus exhaustive enumeration of extreme index arguments against an i64 model (enumeration + differential)",
          "Each (operation, depth) probe runs in its own child process with an explicit stack; signal deaths and panics are failures classified against per-operation known findings; extreme i32/usize arguments are enumerated on arrays of length 0-5, and every numeral at the ends of the i32/u32/i64/u64 ranges is placed in every index, offset and literal position of path and key-path texts.",
          "An 8 MiB thread stack stands for the default main-thread stack; depths are explored on a schedule up to 2^19, not proved.", "5 C20"),
}
NOT_YET = {}

props = [json.loads(l) for l in open(os.path.join(HERE, "properties.jsonl"))]
checks, na = [], []
for p in props:
    i = p["id"]
    if i in CHECKS:
        t, text, note, ref = CHECKS[i]
        checks.append({
            "property_id": i,
            "quick_cmd": f"./vcheck {i} --tier quick",
            "thorough_cmd": f"./vcheck {i} --tier thorough",
            "evidence_file": f"/verif/evidence/{i}.json",
            "replay_cmd_template": "./vcheck replay {path}",
            "engine": "vcheck",
            "level_claimed": {"category": "exploration", "text": text, "design_ref": "DESIGN.md section " + ref},
            "level_note": note,
            "technique": t,
        })
    else:
        na.append({"property_id": i, "reason": NOT_YET.get(i, "check not built yet in this round (planned: property-based test per DESIGN.md section 5); not claimed until it runs clean on the unchanged tree")})

hooks_commits = []
m = {
 "version": 1,
 "setup_cmd": "cd /verif && ./vcheck list",
 "hooks": {
   "guard": "jsonb_verif",
   "enable": "no hook exists: every property is observable through the public API, so the reserved cfg jsonb_verif guards nothing and source_commits is empty; checks build /repo's working tree as a path dependency of /verif/harness (release profile with overflow checks and debug assertions on)",
   "baseline_off_cmd": "cd /repo && cargo test --workspace --no-fail-fast --offline",
   "source_commits": hooks_commits,
   "add_only": True,
 },
 "engines": [
   {"name": "libfuzzer", "path": "/verif/fuzz", "serves_properties": ["C02", "C08", "C09", "C10", "C16"], "kind_free_text": "cargo-fuzz 0.13 / libfuzzer-sys targets linking the same oracles; run by the vcheck parent in the thorough tier (16 processes x VERIF_FUZZ_SECS), artifacts re-judged through vcheck replay before they are reported"},
   {"name": "vcheck", "path": "/verif/harness", "serves_properties": sorted(CHECKS), "kind_free_text": "proptest 1.11 driven from a binary (fixed seeds, shrinking, model oracles), exhaustive enumerators for finite sub-domains, 16 worker processes; replay of saved cases without proptest"},
 ],
 "checks": checks,
 "not_applicable": na,
 "notes": "Exit codes: 0 held, 1 violation (VIOLATION line + replay file), 2 inconclusive (watchdog, harness-internal error, build failure). fix: commits in /repo are listed in known_findings.json as 'fixed' entries.",
}
json.dump(m, open(os.path.join(HERE, "MANIFEST.json"), "w"), indent=1)
print("wrote MANIFEST.json with", len(checks), "checks,", len(na), "not_applicable")
