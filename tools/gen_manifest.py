#!/usr/bin/env python3
"""Regenerates /verif/MANIFEST.json from the table below (single source of truth)."""
import json, os, subprocess
HERE = os.path.dirname(os.path.dirname(os.path.abspath(__file__)))

# id -> (technique, level text, level note, design ref)
CHECKS = {
 "C01": ("property-based differential testing against an independent reference encoder/strict validator + round-trip, enumerated number-width boundaries (proptest)",
         "Exploration: tens of thousands (quick) to millions (thorough) of generated trees are encoded by the library and compared byte-for-byte with a reference encoder written from the README, validated by a strict reference decoder, decoded by both library decoders and re-encoded. Held on everything generated; not a proof.",
         "Trusts the reference encoder/validator in harness/src/model.rs as the documented layout, and proptest's generators for coverage (label distribution reported in evidence).", "5 C01"),
 "C18": ("enumeration of 32-bit patterns (exhaustive in thorough) + property-based testing on 64-bit boundary/random values and on number triples against an exact i128/f64 comparator (proptest)",
         "Exploration, with an exhaustively enumerated sub-domain in the thorough tier (all 2^32 i32, u32 and f32-widened patterns through encode/decode/views). 64-bit values, malformed byte strings and order triples are sampled with boundary-biased generators.",
         "Trusts Rust's i128 arithmetic and f64 primitives as the exact-arithmetic base and the shortest-form encoder in model.rs.", "5 C18"),
}
NOT_YET = {}

props = [json.loads(l) for l in open(os.path.join(HERE, "properties.jsonl"))]
checks, na = [], []
for p in props:
    i = p["id"]
    if i in CHECKS:
        t, text, note, ref = CHECKS[i]
        checks.append({
            "property_id": i,
            "quick_cmd": f"./vcheck {i} --tier quick",
            "thorough_cmd": f"./vcheck {i} --tier thorough",
            "evidence_file": f"/verif/evidence/{i}.json",
            "replay_cmd_template": "./vcheck replay {path}",
            "engine": "vcheck",
            "level_claimed": {"category": "exploration", "text": text, "design_ref": "DESIGN.md section " + ref},
            "level_note": note,
            "technique": t,
        })
    else:
        na.append({"property_id": i, "reason": NOT_YET.get(i, "check not built yet in this round (planned: property-based test per DESIGN.md section 5); not claimed until it runs clean on the unchanged tree")})

hooks_commits = []
m = {
 "version": 1,
 "setup_cmd": "cd /verif/harness && CARGO_NET_OFFLINE=true cargo build --release --offline",
 "hooks": {
   "guard": "jsonb_verif (reserved cfg name; no hook was needed: every property is observable through the public API)",
   "enable": "none needed; checks build /repo's working tree as a path dependency of /verif/harness with overflow checks and debug assertions on",
   "baseline_off_cmd": "cd /repo && cargo test --workspace --no-fail-fast --offline",
   "source_commits": hooks_commits,
   "add_only": True,
 },
 "engines": [
   {"name": "vcheck", "path": "/verif/harness", "serves_properties": sorted(CHECKS), "kind_free_text": "proptest 1.11 driven from a binary (fixed seeds, shrinking, model oracles), exhaustive enumerators for finite sub-domains, 16 worker processes; replay of saved cases without proptest"},
 ],
 "checks": checks,
 "not_applicable": na,
 "notes": "Exit codes: 0 held, 1 violation (VIOLATION line + replay file), 2 inconclusive (watchdog, harness-internal error, build failure). fix: commits in /repo are listed in known_findings.json as 'fixed' entries.",
}
json.dump(m, open(os.path.join(HERE, "MANIFEST.json"), "w"), indent=1)
print("wrote MANIFEST.json with", len(checks), "checks,", len(na), "not_applicable")
