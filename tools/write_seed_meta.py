#!/usr/bin/env python3
"""Writes /verif/seeded/<name>/meta.json from the sub-agent's meta, my confirmation and the self-test log,
and prints the 'which check catches which change' table (markdown)."""
import json, os, re, glob
rows = []
for d in sorted(glob.glob('/verif/seeded/C*-*')):
    name = os.path.basename(d)
    prop = name.split('-')[0]
    am = {}
    try: am = json.load(open(d + '/agent_meta.json'))
    except Exception: pass
    confirm = open(d + '/confirm.txt').read().strip() if os.path.exists(d + '/confirm.txt') else ''
    st = open(d + '/selftest.txt').read() if os.path.exists(d + '/selftest.txt') else ''
    extra = open(d + '/selftest-extra.txt').read() if os.path.exists(d + '/selftest-extra.txt') else ''
    caught = []
    for txt in (st, extra):
        m = re.findall(r'CAUGHT-BY:(.*)', txt)
        for x in m: caught += x.split()
    caught = sorted(set(caught))
    ok = 'demo_clean_rc=0' in confirm and 'demo_patched_rc=101' in confirm and 'suite_passed=71' in confirm
    meta = {
        "property": prop,
        "summary": am.get("summary", ""),
        "needs": am.get("needs", ""),
        "files": am.get("files", []),
        "origin": "written by a fresh sub-agent that saw only the property text and a scratch worktree of /repo",
        "confirmed_by_me": {
            "how": "tools/confirm_seed.sh: scratch copy of /repo HEAD; demo passes without the change, fails with it; cargo test --workspace --no-fail-fast --offline with the change",
            "result": confirm,
            "ok": ok,
        },
        "checks_run": ("selftest.sh (scratch copy of /repo + harness): the own check and the two broad checks C07 and C11 only" if st.startswith("## round 5") or st.startswith("## round 6") or st.startswith("## round 7") else "selftest.sh (scratch copy of /repo + harness, every quick check)"),
        "caught_by": caught,
    }
    json.dump(meta, open(d + '/meta.json', 'w'), indent=1)
    note = open(d + '/note.txt').read().strip() if os.path.exists(d + '/note.txt') else ''
    if note:
        meta["note"] = note
        json.dump(meta, open(d + '/meta.json', 'w'), indent=1)
    col = ' '.join(caught) or ('not reported' if note else '**missed**')
    if note:
        col += ' (' + note.replace('|', '/') + ')'
    rows.append((name, am.get("summary", "")[:150].replace('|', '/'), col, 'yes' if ok else 'NO'))
print('Rounds 1-4: every quick check was run against each change. Rounds 5 to 7 (`-r5-`, `-r6-`, `-r7-`): the own check, C07 and C11 only (plus further checks where a `selftest-extra.txt` is present).\n')
print('| seeded change | what it does | caught by (quick tier) | confirmed |')
print('|---|---|---|---|')
for r in rows: print('| %s | %s | %s | %s |' % r)
