#!/bin/bash
# benign2_finish.sh <lane> <name>:<mode>:<ids,comma> ...   (second property-preserving round, final harness)
#   mode r = re-check of checks that ran with an intermediate harness state -> selftest-recheck.txt
#   mode s = the change was not (fully) run before the time ran out: confirm if needed, then the checks
#            closest to the changed code only -> selftest.txt (header says so)
lane=$1; shift
export VST_DIR=/tmp/vst$lane CS_DIR=/tmp/cs$lane
cd /verif
for spec in "$@"; do
  name=${spec%%:*}; rest=${spec#*:}; mode=${rest%%:*}; ids=$(echo ${rest#*:} | tr ',' ' ')
  d=/verif/benign/$name
  if [ ! -f $d/confirm.txt ]; then
    id=B${name:1:2}; n=${name##*-}; o=/tmp/wt9/$id/_out
    mkdir -p $d; cp $o/benign$n.diff $d/patch.diff; cp $o/demo$n.rs $d/demo.rs; cp $o/meta$n.json $d/agent_meta.json 2>/dev/null
    tools/confirm_seed.sh $d/patch.diff $d/demo.rs | grep VERDICT > $d/confirm.txt
  fi
  if [ $mode = r ]; then
    { echo "## re-check with the final harness of the checks that had run with an intermediate harness state ($ids)"; ./selftest.sh $d/patch.diff $ids; } > $d/selftest-recheck.txt 2>&1
    echo "$name recheck $(grep CAUGHT $d/selftest-recheck.txt)"
  else
    { echo "## subset: the checks closest to the changed code only ($ids) - the remaining time did not allow all twenty"; ./selftest.sh $d/patch.diff $ids; } > $d/selftest.txt 2>&1
    echo "$name subset $(grep CAUGHT $d/selftest.txt)"
  fi
done
