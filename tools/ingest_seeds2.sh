#!/bin/bash
# ingest_seeds2.sh <ID> ... — round-2 sub-agent outputs in /tmp/wt2/<ID>/_out -> /verif/seeded/<ID>-r2-<n>/
cd /verif
for id in "$@"; do
  for n in "" 2; do
    o=/tmp/wt2/$id/_out
    [ -f $o/patch$n.diff ] || continue
    name=$id-r2-${n:-1}
    d=/verif/seeded/$name
    [ -f $d/selftest.txt ] && continue
    mkdir -p $d
    cp $o/patch$n.diff $d/patch.diff; cp $o/demo$n.rs $d/demo.rs; cp $o/meta$n.json $d/agent_meta.json 2>/dev/null
    v=$(tools/confirm_seed.sh $d/patch.diff $d/demo.rs | grep VERDICT)
    echo "== $name :: $v"
    echo "$v" > $d/confirm.txt
    ./selftest.sh $d/patch.diff > $d/selftest.txt 2>&1
    grep -E "CAUGHT-BY|BUILD-FAILED" $d/selftest.txt
  done
done
