#!/bin/bash
# run_mutants.sh [pattern] — runs selftest.sh over /verif/mutants/*.patch using MAP.tsv
# (patch prefix -> checks expected to catch it) and appends to mutants/RESULTS.txt
cd /verif
pat="${1:-}"
while IFS=$'\t' read -r pre ids; do
  [ -z "$pre" ] && continue
  case "$pre" in *"$pat"*) ;; *) continue;; esac
  f=$(ls mutants/$pre*.patch 2>/dev/null | head -1)
  [ -z "$f" ] && continue
  echo "=== $f (expected: $ids)" 
  ./selftest.sh "$f" $ids 2>&1 | grep -E "^(C[0-9]+ rc|CAUGHT-BY|BUILD-FAILED|patch does not)" 
done < mutants/MAP.tsv
