#!/bin/bash
# try_patch.sh <patch.diff> [ID ...] — apply a seeded change to /repo, run the given quick
# checks (default: all twenty), print one line per check, and always revert /repo.
set -u
P="$1"; shift
IDS="${*:-C01 C02 C03 C04 C05 C06 C07 C08 C09 C10 C11 C12 C13 C14 C15 C16 C17 C18 C19 C20}"
cd /repo || exit 2
if [ -n "$(git status --porcelain --untracked-files=no)" ]; then echo "/repo is dirty, refusing"; exit 2; fi
trap 'git -C /repo checkout -- . >/dev/null 2>&1; git -C /repo clean -fdq -- src tests >/dev/null 2>&1' EXIT
git apply "$P" || { echo "patch does not apply"; exit 2; }
caught=""
for id in $IDS; do
  out=$(/verif/vcheck $id --tier quick 2>&1); rc=$?
  line=$(echo "$out" | grep -E "^$id quick" | head -1)
  viol=$(echo "$out" | grep -c "^VIOLATION")
  echo "$id rc=$rc violations=$viol :: $line"
  if [ $rc -eq 1 ]; then caught="$caught $id"; echo "$out" | grep -v "^KNOWN-FINDING" | sed -n 2,4p | cut -c1-300; fi
done
echo "CAUGHT-BY:$caught"
