#!/usr/bin/env python3
"""benign/TABLE.md: property-preserving changes written by sub-agents and what the quick checks said."""
import json, os, re, glob
print("# Property-preserving changes (false-alarm test)\n")
print("Each change was written by a fresh sub-agent that saw the twenty property statements and a scratch")
print("worktree of /repo (nothing from /verif). `confirmed` = tools/confirm_seed.sh: the agent's demonstration")
print("passes without and with the change and the repository suite is unchanged (71 pass). `alarms` = quick")
print("checks that exited 1 against a scratch copy with the change (selftest.sh); `checks ok` = checks that exited 0.\n")
print("`re-check` = the checks that gained assertions after that round (rounds 3-4 feedback), run again with the")
print("final harness (selftest-recheck.txt): checks ok / alarms.\n")
print("Second round (`B1?b-N`, eight sub-agents, two changes each): run while the harness was being extended, so a few")
print("checks ran with an intermediate harness state (a harness-internal error in the new C10 sub-check, the C03 oracle's")
print("serde_json nesting limit O14, 257/300-level documents reaching the known F20-u8-depth defect through C14); those")
print("checks were run again with the final harness (`re-check` column). Changes whose `checks ok` is below 20 and whose")
print("selftest.txt starts with `## subset` were run against the checks closest to the changed code only.\n")
print("| change | focus | kind | what it does | observable difference | confirmed | checks ok | alarms | re-check |")
print("|---|---|---|---|---|---|---|---|---|")
for d in sorted(glob.glob('/verif/benign/B*-*')):
    name = os.path.basename(d)
    am = {}
    try: am = json.load(open(d + '/agent_meta.json'))
    except Exception: pass
    confirm = open(d + '/confirm.txt').read() if os.path.exists(d + '/confirm.txt') else ''
    ok = 'demo_clean_rc=0' in confirm and 'demo_patched_rc=0' in confirm and 'suite_passed=71' in confirm
    st = open(d + '/selftest.txt').read() if os.path.exists(d + '/selftest.txt') else ''
    alarms = ' '.join(sum((x.split() for x in re.findall(r'CAUGHT-BY:(.*)', st)), [])) or 'none'
    n0 = len(re.findall(r'^C\d\d rc=0', st, re.M))
    cl = lambda s: str(s).replace('|', '/').replace('\n', ' ')
    rc = open(d + '/selftest-recheck.txt').read() if os.path.exists(d + '/selftest-recheck.txt') else ''
    ra = ' '.join(sum((x.split() for x in re.findall(r'CAUGHT-BY:(.*)', rc)), [])) or 'none'
    rn = len(re.findall(r'^C\d\d rc=0', rc, re.M)); rt = len(re.findall(r'^C\d\d rc=', rc, re.M))
    recheck = ('%d/%d ok, alarms: %s' % (rn, rt, ra)) if rc else '-'
    nt = len(re.findall(r'^C\d\d rc=', st, re.M))
    print('| %s | %s | %s | %s | %s | %s | %d/%d | %s | %s |' % (name, am.get('focus', ''), am.get('kind', ''), cl(am.get('summary', ''))[:220], cl(am.get('observable_difference', ''))[:160], 'yes' if ok else 'NO', n0, nt, alarms, recheck))
