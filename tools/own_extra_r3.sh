#!/bin/bash
# For every round-3 seeded change whose own property's check is not in CAUGHT-BY of the full
# self-test (run with the harness as it was at that time), run the own check with the current
# harness and append the outcome to selftest-extra.txt.
cd /verif
for d in seeded/C*-*; do
  name=$(basename $d); id=${name%%-*}
  [ -f $d/selftest.txt ] || continue
  if grep -h "CAUGHT-BY" $d/selftest.txt $d/selftest-extra.txt 2>/dev/null | grep -qw $id; then continue; fi
  r=$(VST_DIR=/tmp/vstE VERIF_STALL_SECS=900 ./selftest.sh $d/patch.diff $id 2>&1)
  { echo "## own check re-run with the harness of $(git -C /verif rev-parse --short HEAD)"; echo "$r"; } >> $d/selftest-extra.txt
  echo "$name :: $(echo "$r" | grep CAUGHT-BY)"
done
