#!/bin/bash
# ingest_seeds.sh <ID> ... — for each sub-agent output in /tmp/wt/<ID>/_out: confirm it in a
# scratch copy, store it under /verif/seeded/<ID>-<n>/, run every quick check against it (selftest).
cd /verif
for id in "$@"; do
  for n in "" 2; do
    o=/tmp/wt/$id/_out
    [ -f $o/patch$n.diff ] || continue
    name=$id-${n:-1}
    d=/verif/seeded/$name
    mkdir -p $d
    cp $o/patch$n.diff $d/patch.diff; cp $o/demo$n.rs $d/demo.rs; cp $o/meta$n.json $d/agent_meta.json 2>/dev/null
    v=$(tools/confirm_seed.sh $d/patch.diff $d/demo.rs | grep VERDICT)
    echo "== $name :: $v"
    echo "$v" > $d/confirm.txt
    ./selftest.sh $d/patch.diff > $d/selftest.txt 2>&1
    grep -E "CAUGHT-BY|BUILD-FAILED" $d/selftest.txt
  done
done
