#!/bin/bash
# recheck_benign.sh <lane> <glob of benign dirs> — re-run the checks that changed after the
# property-preserving round against every benign change (scratch copy; never /repo)
lane=$1; shift
export VST_DIR=/tmp/vst$lane
cd /verif
IDS="${RECHECK_IDS:-C05 C06 C07 C08 C13 C14 C15 C18 C20}"
for d in "$@"; do
  [ -f $d/patch.diff ] || continue
  [ -f $d/selftest-recheck.txt ] && continue
  { echo "## re-run of $IDS with the harness of $(git -C /verif rev-parse --short HEAD)"; ./selftest.sh $d/patch.diff $IDS; } > $d/selftest-recheck.txt 2>&1
  echo "$(basename $d) :: $(grep -E 'CAUGHT-BY|BUILD-FAILED' $d/selftest-recheck.txt | sed 's/CAUGHT-BY/ALARMS/') rc0=$(grep -c 'rc=0' $d/selftest-recheck.txt)"
done
