#!/bin/bash
# confirm_seed.sh <patch.diff> <demo.rs>
# Confirms a seeded change in a scratch copy of /repo's HEAD: the demo passes without
# the change and fails with it; the repository's own suite is unchanged with it
# (71 pass, functions::test_to_serde_json fails). Prints one verdict line.
set -u
P="$(readlink -f "$1")"; D="$(readlink -f "$2")"
S=${CS_DIR:-/tmp/cs}
mkdir -p $S; exec 9>$S/.lock; flock 9
rm -rf $S/repo; mkdir -p $S/repo
git -C /repo archive HEAD | tar -x -C $S/repo
cd $S/repo && git init -q . 2>/dev/null
# extracted files carry the commit's mtime: without this, cargo would take the library built
# from the previous (patched) copy for fresh
find src tests -name '*.rs' -exec touch {} +
export CARGO_TARGET_DIR=$S/target CARGO_NET_OFFLINE=true
cp "$D" tests/seeded_demo.rs
cargo test --offline --test seeded_demo >$S/demo_clean.log 2>&1; clean=$?
git apply "$P" || { echo "VERDICT patch-does-not-apply"; exit 2; }
cargo test --offline --test seeded_demo >$S/demo_patched.log 2>&1; patched=$?
rm tests/seeded_demo.rs
cargo test --workspace --no-fail-fast --offline >$S/suite.log 2>&1
passed=$(grep -E "^test result" $S/suite.log | awk '{s+=$4} END {print s}')
failed=$(grep -E "^test .* FAILED" $S/suite.log | awk '{print $2}' | sort | tr '\n' ' ')
echo "VERDICT demo_clean_rc=$clean demo_patched_rc=$patched suite_passed=$passed suite_failed=[$failed]"
rm -rf $S/repo
