#!/usr/bin/env python3-vt
"""Validates MANIFEST.json and every evidence file against the schemas."""
import json, sys, glob, jsonschema
ok = True
def v(path, schema):
    global ok
    try:
        jsonschema.validate(json.load(open(path)), json.load(open(schema)))
        print("ok  ", path)
    except Exception as e:
        ok = False
        print("FAIL", path, str(e)[:300])
v("/verif/MANIFEST.json", "/root/.vp/MANIFEST.schema.json")
for f in sorted(glob.glob("/verif/evidence/*.json")):
    v(f, "/root/.vp/EVIDENCE.schema.json")
ps = [json.loads(l) for l in open("/verif/properties.jsonl")]
m = json.load(open("/verif/MANIFEST.json"))
claimed = {c["property_id"] for c in m["checks"]}
na = {c["property_id"] for c in m.get("not_applicable", [])}
for p in ps:
    if (p["id"] in claimed) == (p["id"] in na):
        ok = False
        print("FAIL property", p["id"], "must be exactly one of claimed / not_applicable")
sys.exit(0 if ok else 1)
