#!/bin/bash
# ingest_seeds3.sh <lane> <ID> ... — round-7 outputs in /tmp/wt8/<ID>/_out -> /verif/seeded/<ID>-r7-<n>/
# <lane> selects private scratch directories so that several lanes can run in parallel
lane=$1; shift
export VST_DIR=/tmp/vst$lane CS_DIR=/tmp/cs$lane
cd /verif
for id in "$@"; do
  for n in "" 2; do
    o=/tmp/wt8/$id/_out
    [ -f $o/patch$n.diff ] || continue
    name=$id-r7-${n:-1}
    d=/verif/seeded/$name
    [ -f $d/selftest.txt ] && continue
    mkdir -p $d
    cp $o/patch$n.diff $d/patch.diff; cp $o/demo$n.rs $d/demo.rs; cp $o/meta$n.json $d/agent_meta.json 2>/dev/null
    v=$(tools/confirm_seed.sh $d/patch.diff $d/demo.rs | grep VERDICT)
    echo "== $name :: $v"
    echo "$v" > $d/confirm.txt
    ids=$(echo "$id C07 C11" | tr ' ' '\n' | sort -u | tr '\n' ' ')
    { echo "## round 7: own check plus the two broad checks ($ids)"; ./selftest.sh $d/patch.diff $ids; } > $d/selftest.txt 2>&1
    grep -E "CAUGHT-BY|BUILD-FAILED" $d/selftest.txt
  done
done
