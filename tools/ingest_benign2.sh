#!/bin/bash
# ingest_benign.sh <lane> <Bxx> ... — property-preserving changes written by sub-agents
# (/tmp/wt9/<Bxx>/_out/benignN.diff) -> /verif/benign/<Bxx>-<n>/ ; confirms each (demo passes on
# both trees, repository suite unchanged) and runs every quick check against it in a scratch
# copy. A check that reports a violation here is a FALSE ALARM candidate to be analysed.
lane=$1; shift
export VST_DIR=/tmp/vst$lane CS_DIR=/tmp/cs$lane
cd /verif
for id in "$@"; do
  for n in 1 2; do
    o=/tmp/wt9/$id/_out
    [ -f $o/benign$n.diff ] || continue
    name=B${id#B}b-$n
    d=/verif/benign/$name
    [ -f $d/selftest.txt ] && continue
    mkdir -p $d
    cp $o/benign$n.diff $d/patch.diff; cp $o/demo$n.rs $d/demo.rs 2>/dev/null; cp $o/meta$n.json $d/agent_meta.json 2>/dev/null
    v=$(tools/confirm_seed.sh $d/patch.diff $d/demo.rs | grep VERDICT)
    echo "== $name :: $v"
    echo "$v" > $d/confirm.txt
    ./selftest.sh $d/patch.diff > $d/selftest.txt 2>&1
    grep -E "CAUGHT-BY|BUILD-FAILED" $d/selftest.txt | sed 's/CAUGHT-BY/ALARMS/'
  done
done
