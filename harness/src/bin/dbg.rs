//! scratch debugging helper (not part of any registered check)
fn main() {
    let a: Vec<String> = std::env::args().skip(1).collect();
    match a[0].as_str() {
        "path" => {
            for t in &a[1..] {
                let r = std::panic::catch_unwind(|| jsonb::jsonpath::parse_json_path(t.as_bytes()).map(|p| format!("{p:?}")));
                println!("{t:?} => {r:?}");
            }
        }
        "keypath" => {
            for t in &a[1..] {
                let r = std::panic::catch_unwind(|| jsonb::keypath::parse_key_paths(t.as_bytes()).map(|p| format!("{p:?}")));
                println!("{t:?} => {r:?}");
            }
        }
        "select" => {
            let v = jsonb::parse_value(a[1].as_bytes()).unwrap().to_vec();
            let p = jsonb::jsonpath::parse_json_path(a[2].as_bytes()).unwrap();
            let mut d = vec![];
            let mut o = vec![];
            let r = jsonb::jsonpath::Selector::new(p, jsonb::jsonpath::Mode::All).select(&v, &mut d, &mut o);
            println!("{r:?} offsets {o:?}");
            let mut s = 0usize;
            for e in o {
                println!("  {}", jsonb::to_string(&d[s..e as usize]));
                s = e as usize;
            }
        }
        _ => {}
    }
}
