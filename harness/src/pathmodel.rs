//! SQL/JSONPath model: an AST of the documented language, a printer producing every
//! legal spelling, conversion to/from the library's AST, and a three-valued evaluator
//! over model trees (written from README.md's operator table, the doc comments of
//! `jsonpath::Path` and property C08 — not from selector.rs).

use crate::cmpmodel::num_cmp;
use crate::engine::pick;
use crate::gen::*;
use crate::jser::Jser;
use crate::model::{M, N};
use jsonb::jsonpath as jp;
use proptest::collection::vec;
use proptest::prelude::*;
use serde_json::{json, Value as J};
use std::borrow::Cow;
use std::cmp::Ordering;

#[derive(Clone, Debug, PartialEq)]
pub enum Idx {
    /// 0-based index (the grammar also admits a sign)
    At(i32),
    /// `last + n`, n possibly negative
    Last(i32),
}
#[derive(Clone, Debug, PartialEq)]
pub enum AIdx {
    One(Idx),
    Slice(Idx, Idx),
}
#[derive(Clone, Copy, Debug, PartialEq)]
pub enum FieldForm {
    Dot,
    Colon,
    Bracket,
}
#[derive(Clone, Debug, PartialEq)]
pub enum Step {
    DotWild,
    BrWild,
    Field(FieldForm, String),
    Indices(Vec<AIdx>),
    Filter(Box<Expr>),
}
#[derive(Clone, Debug)]
pub enum Lit {
    Null,
    Bool(bool),
    Num(N),
    Str(String),
}
impl PartialEq for Lit {
    fn eq(&self, o: &Lit) -> bool {
        match (self, o) {
            (Lit::Null, Lit::Null) => true,
            (Lit::Bool(a), Lit::Bool(b)) => a == b,
            (Lit::Num(a), Lit::Num(b)) => a.ident_eq(b),
            (Lit::Str(a), Lit::Str(b)) => a == b,
            _ => false,
        }
    }
}
#[derive(Clone, Copy, Debug, PartialEq)]
pub enum CmpOp {
    Eq,
    Ne,
    Lt,
    Le,
    Gt,
    Ge,
}
#[derive(Clone, Debug, PartialEq)]
pub enum Operand {
    /// `$` (root = true) or `@`, followed by non-filter steps
    Path { root: bool, steps: Vec<Step> },
    Lit(Lit),
}
#[derive(Clone, Debug, PartialEq)]
pub enum Expr {
    Cmp(CmpOp, Operand, Operand),
    And(Box<Expr>, Box<Expr>),
    Or(Box<Expr>, Box<Expr>),
    /// exists($...) / exists(@...), steps may hold nested filters
    Exists { root: bool, steps: Vec<Step> },
    /// something the parser accepts but the evaluator has no meaning for (arithmetic)
    Unsupported(String),
}
#[derive(Clone, Debug, PartialEq)]
pub enum Start {
    Root,
    /// Snowflake style: first field name without `$.`
    Bare(String),
    /// nothing before the first step, e.g. `[1][2]` or `["k"]`
    None,
}
#[derive(Clone, Debug, PartialEq)]
pub enum PathAst {
    Steps(Start, Vec<Step>),
    Predicate(Expr),
}

// ---- conversion to and from the library's AST --------------------------------------------

fn idx_to_lib(i: &Idx) -> jp::Index {
    match i {
        Idx::At(v) => jp::Index::Index(*v),
        Idx::Last(v) => jp::Index::LastIndex(*v),
    }
}
fn step_to_lib(s: &Step) -> jp::Path<'static> {
    match s {
        Step::DotWild => jp::Path::DotWildcard,
        Step::BrWild => jp::Path::BracketWildcard,
        Step::Field(FieldForm::Dot, n) => jp::Path::DotField(Cow::Owned(n.clone())),
        Step::Field(FieldForm::Colon, n) => jp::Path::ColonField(Cow::Owned(n.clone())),
        Step::Field(FieldForm::Bracket, n) => jp::Path::ObjectField(Cow::Owned(n.clone())),
        Step::Indices(v) => jp::Path::ArrayIndices(
            v.iter()
                .map(|a| match a {
                    AIdx::One(i) => jp::ArrayIndex::Index(idx_to_lib(i)),
                    AIdx::Slice(s, e) => jp::ArrayIndex::Slice((idx_to_lib(s), idx_to_lib(e))),
                })
                .collect(),
        ),
        Step::Filter(e) => jp::Path::FilterExpr(Box::new(expr_to_lib(e))),
    }
}
fn operand_to_lib(o: &Operand) -> jp::Expr<'static> {
    match o {
        Operand::Path { root, steps } => {
            let mut p = vec![if *root { jp::Path::Root } else { jp::Path::Current }];
            p.extend(steps.iter().map(step_to_lib));
            jp::Expr::Paths(p)
        }
        Operand::Lit(l) => jp::Expr::Value(Box::new(match l {
            Lit::Null => jp::PathValue::Null,
            Lit::Bool(b) => jp::PathValue::Boolean(*b),
            Lit::Num(n) => jp::PathValue::Number(n.to_lib()),
            Lit::Str(s) => jp::PathValue::String(Cow::Owned(s.clone())),
        })),
    }
}
pub fn expr_to_lib(e: &Expr) -> jp::Expr<'static> {
    let bin = |op, l: jp::Expr<'static>, r: jp::Expr<'static>| jp::Expr::BinaryOp { op, left: Box::new(l), right: Box::new(r) };
    match e {
        Expr::Cmp(op, l, r) => bin(
            match op {
                CmpOp::Eq => jp::BinaryOperator::Eq,
                CmpOp::Ne => jp::BinaryOperator::NotEq,
                CmpOp::Lt => jp::BinaryOperator::Lt,
                CmpOp::Le => jp::BinaryOperator::Lte,
                CmpOp::Gt => jp::BinaryOperator::Gt,
                CmpOp::Ge => jp::BinaryOperator::Gte,
            },
            operand_to_lib(l),
            operand_to_lib(r),
        ),
        Expr::And(l, r) => bin(jp::BinaryOperator::And, expr_to_lib(l), expr_to_lib(r)),
        Expr::Or(l, r) => bin(jp::BinaryOperator::Or, expr_to_lib(l), expr_to_lib(r)),
        Expr::Exists { root, steps } => {
            let mut p = vec![if *root { jp::Path::Root } else { jp::Path::Current }];
            p.extend(steps.iter().map(step_to_lib));
            jp::Expr::FilterFunc(jp::FilterFunc::Exists(p))
        }
        Expr::Unsupported(_) => panic!("[harness-internal] Unsupported has no library form"),
    }
}
pub fn to_lib(a: &PathAst) -> jp::JsonPath<'static> {
    match a {
        PathAst::Predicate(e) => jp::JsonPath { paths: vec![jp::Path::Predicate(Box::new(expr_to_lib(e)))] },
        PathAst::Steps(start, steps) => {
            let mut p = vec![];
            match start {
                Start::Root => p.push(jp::Path::Root),
                Start::Bare(n) => p.push(jp::Path::DotField(Cow::Owned(n.clone()))),
                Start::None => {}
            }
            p.extend(steps.iter().map(step_to_lib));
            jp::JsonPath { paths: p }
        }
    }
}

fn idx_from_lib(i: &jp::Index) -> Idx {
    match i {
        jp::Index::Index(v) => Idx::At(*v),
        jp::Index::LastIndex(v) => Idx::Last(*v),
    }
}
fn step_from_lib(p: &jp::Path) -> Result<Step, String> {
    Ok(match p {
        jp::Path::DotWildcard => Step::DotWild,
        jp::Path::BracketWildcard => Step::BrWild,
        jp::Path::DotField(n) => Step::Field(FieldForm::Dot, n.to_string()),
        jp::Path::ColonField(n) => Step::Field(FieldForm::Colon, n.to_string()),
        jp::Path::ObjectField(n) => Step::Field(FieldForm::Bracket, n.to_string()),
        jp::Path::ArrayIndices(v) => Step::Indices(
            v.iter()
                .map(|a| match a {
                    jp::ArrayIndex::Index(i) => AIdx::One(idx_from_lib(i)),
                    jp::ArrayIndex::Slice((s, e)) => AIdx::Slice(idx_from_lib(s), idx_from_lib(e)),
                })
                .collect(),
        ),
        jp::Path::FilterExpr(e) => Step::Filter(Box::new(expr_from_lib(e)?)),
        other => return Err(format!("unexpected path element {other:?} inside a path")),
    })
}
fn steps_from_lib(ps: &[jp::Path]) -> Result<(bool, Vec<Step>), String> {
    let root = match ps.first() {
        Some(jp::Path::Root) => true,
        Some(jp::Path::Current) => false,
        other => return Err(format!("operand path starts with {other:?}")),
    };
    Ok((root, ps[1..].iter().map(step_from_lib).collect::<Result<_, _>>()?))
}
fn operand_from_lib(e: &jp::Expr) -> Result<Operand, String> {
    match e {
        jp::Expr::Paths(ps) => {
            let (root, steps) = steps_from_lib(ps)?;
            Ok(Operand::Path { root, steps })
        }
        jp::Expr::Value(v) => Ok(Operand::Lit(match &**v {
            jp::PathValue::Null => Lit::Null,
            jp::PathValue::Boolean(b) => Lit::Bool(*b),
            jp::PathValue::Number(n) => Lit::Num(N::from_lib(n)),
            jp::PathValue::String(s) => Lit::Str(s.to_string()),
        })),
        other => Err(format!("operand is {other:?}")),
    }
}
pub fn expr_from_lib(e: &jp::Expr) -> Result<Expr, String> {
    Ok(match e {
        jp::Expr::BinaryOp { op, left, right } => match op {
            jp::BinaryOperator::And => Expr::And(Box::new(expr_from_lib(left)?), Box::new(expr_from_lib(right)?)),
            jp::BinaryOperator::Or => Expr::Or(Box::new(expr_from_lib(left)?), Box::new(expr_from_lib(right)?)),
            o => Expr::Cmp(
                match o {
                    jp::BinaryOperator::Eq => CmpOp::Eq,
                    jp::BinaryOperator::NotEq => CmpOp::Ne,
                    jp::BinaryOperator::Lt => CmpOp::Lt,
                    jp::BinaryOperator::Lte => CmpOp::Le,
                    jp::BinaryOperator::Gt => CmpOp::Gt,
                    jp::BinaryOperator::Gte => CmpOp::Ge,
                    _ => unreachable!(),
                },
                operand_from_lib(left)?,
                operand_from_lib(right)?,
            ),
        },
        jp::Expr::FilterFunc(jp::FilterFunc::Exists(ps)) => {
            let (root, steps) = steps_from_lib(ps)?;
            Expr::Exists { root, steps }
        }
        other => Expr::Unsupported(format!("{other:?}")),
    })
}
/// the library's AST in the model's terms; Err for shapes the model does not cover
pub fn from_lib(p: &jp::JsonPath) -> Result<PathAst, String> {
    if p.paths.len() == 1 {
        if let jp::Path::Predicate(e) = &p.paths[0] {
            return Ok(PathAst::Predicate(expr_from_lib(e)?));
        }
    }
    let (start, rest) = match p.paths.first() {
        Some(jp::Path::Root) => (Start::Root, &p.paths[1..]),
        _ => (Start::None, &p.paths[..]),
    };
    Ok(PathAst::Steps(start, rest.iter().map(step_from_lib).collect::<Result<_, _>>()?))
}
/// non-negative Int64 literals and UInt64 literals of the same value are the same literal
/// (`+1` reads as Int64(1), prints as `1`, reads back as UInt64(1))
pub fn unsign_literals(a: &PathAst) -> PathAst {
    fn lit(l: &Lit) -> Lit {
        match l {
            Lit::Num(N::I(v)) if *v >= 0 => Lit::Num(N::U(*v as u64)),
            x => x.clone(),
        }
    }
    fn operand(o: &Operand) -> Operand {
        match o {
            Operand::Lit(l) => Operand::Lit(lit(l)),
            Operand::Path { root, steps } => Operand::Path { root: *root, steps: steps.iter().map(step).collect() },
        }
    }
    fn step(s: &Step) -> Step {
        match s {
            Step::Filter(e) => Step::Filter(Box::new(expr(e))),
            x => x.clone(),
        }
    }
    fn expr(e: &Expr) -> Expr {
        match e {
            Expr::Cmp(op, l, r) => Expr::Cmp(*op, operand(l), operand(r)),
            Expr::And(l, r) => Expr::And(Box::new(expr(l)), Box::new(expr(r))),
            Expr::Or(l, r) => Expr::Or(Box::new(expr(l)), Box::new(expr(r))),
            Expr::Exists { root, steps } => Expr::Exists { root: *root, steps: steps.iter().map(step).collect() },
            Expr::Unsupported(s) => Expr::Unsupported(s.replace("UInt64(", "Int64(")),
        }
    }
    match a {
        PathAst::Predicate(e) => PathAst::Predicate(expr(e)),
        PathAst::Steps(st, steps) => PathAst::Steps(st.clone(), steps.iter().map(step).collect()),
    }
}

/// `Steps(Bare(n), s)` and `Steps(None, [Field(Dot, n), s..])` are the same structure
pub fn normalize(a: &PathAst) -> PathAst {
    match a {
        PathAst::Steps(Start::Bare(n), s) => {
            let mut v = vec![Step::Field(FieldForm::Dot, n.clone())];
            v.extend(s.iter().cloned());
            PathAst::Steps(Start::None, v)
        }
        x => x.clone(),
    }
}

// ---- printer -----------------------------------------------------------------------------------

pub struct Style<'a> {
    pub ch: &'a [u16],
    pub at: usize,
    /// plain style: no optional whitespace, lower-case keywords, `!=`, minimal quoting
    pub plain: bool,
    out: String,
    /// the output ends with an unquoted name: only blanks may follow it directly (a tab
    /// or a newline would be read as part of the name)
    last_raw: bool,
}
impl<'a> Style<'a> {
    pub fn new(ch: &'a [u16], plain: bool) -> Self {
        Style { ch, at: 0, plain, out: String::new(), last_raw: false }
    }
    fn next(&mut self) -> u16 {
        if self.plain || self.ch.is_empty() {
            return 0;
        }
        let v = self.ch[self.at % self.ch.len()];
        self.at += 1;
        v
    }
    fn emit(&mut self, s: &str) {
        if !s.is_empty() {
            self.out.push_str(s);
            self.last_raw = false;
        }
    }
    fn emit_raw_name(&mut self, s: &str) {
        self.out.push_str(s);
        self.last_raw = true;
    }
    /// optional whitespace
    fn ws(&mut self) {
        let c = self.next();
        let w = ["", "", "", " ", "  ", "\t", "\n", "\r\n", " \t "][pick(c, 9)];
        self.emit(w);
    }
    /// mandatory separation (around `to`)
    fn sep(&mut self) {
        let c = self.next();
        let w = if self.plain { " " } else { [" ", "  ", " \t", " \n "][pick(c, 4)] };
        self.emit(w);
    }
    fn kw(&mut self, w: &str) {
        let k = match self.next() % 4 {
            0 | 1 => w.to_string(),
            2 => w.to_uppercase(),
            _ => w.chars().enumerate().map(|(i, c)| if i % 2 == 0 { c.to_ascii_uppercase() } else { c }).collect(),
        };
        self.emit(&k);
    }
}

/// characters an unquoted name may consist of (everything the name scanner does not
/// treat as a terminator or an escape, minus whitespace forms that would be ambiguous)
pub fn raw_name_ok(s: &str) -> bool {
    !s.is_empty()
        && s.chars().all(|c| {
            !matches!(
                c,
                ' ' | ',' | '.' | ':' | '{' | '}' | '[' | ']' | '(' | ')' | '?' | '@' | '$' | '|' | '&' | '<' | '>' | '!' | '=' | '+'
                    | '-' | '*' | '/' | '%' | '"' | '\'' | '\\' | '\t' | '\n' | '\r'
            ) && !c.is_control()
        })
}
/// names and string literals that need neither quoting nor escaping (the round-trip clause)
pub fn plain_text_ok(s: &str) -> bool {
    raw_name_ok(s)
}

/// an unquoted name with some characters written as escapes (`caf\u00e9`, `caf\u{00E9}`, pairs)
fn raw_spell(name: &str, st: &mut Style) -> String {
    if st.plain || st.next() % 4 != 0 {
        return name.to_string();
    }
    let mut out = String::new();
    for c in name.chars() {
        let sel = st.next();
        let cp = c as u32;
        if sel % 3 == 0 && cp < 0x10000 {
            if sel & 0x100 != 0 {
                out.push_str(&format!("\\u{cp:04X}"));
            } else {
                out.push_str(&format!("\\u{{{cp:04x}}}"));
            }
        } else if sel % 3 == 0 {
            let v = cp - 0x10000;
            out.push_str(&format!("\\u{:04X}\\u{:04x}", 0xD800 + (v >> 10), 0xDC00 + (v & 0x3FF)));
        } else {
            out.push(c);
        }
    }
    out
}

fn quote(s: &str, st: &mut Style) {
    let mut out = String::from("\"");
    for c in s.chars() {
        let sel = st.next();
        match c {
            '"' => out.push_str("\\\""),
            '\\' => out.push_str("\\\\"),
            '\u{8}' if sel % 2 == 0 => out.push_str("\\b"),
            '\u{c}' if sel % 2 == 0 => out.push_str("\\f"),
            '\n' if sel % 2 == 0 => out.push_str("\\n"),
            '\r' if sel % 2 == 0 => out.push_str("\\r"),
            '\t' if sel % 2 == 0 => out.push_str("\\t"),
            '/' if sel % 4 == 0 => out.push_str("\\/"),
            c if (c as u32) < 0x10000 && (sel % 8 == 7 || (c as u32) < 0x20 && sel % 2 == 1) => {
                if sel & 0x100 != 0 {
                    out.push_str(&format!("\\u{:04X}", c as u32));
                } else {
                    out.push_str(&format!("\\u{{{:04x}}}", c as u32));
                }
            }
            c if (c as u32) >= 0x10000 && sel % 8 == 7 => {
                let v = c as u32 - 0x10000;
                let (hi, lo) = (0xD800 + (v >> 10), 0xDC00 + (v & 0x3FF));
                match sel >> 9 & 3 {
                    0 => out.push_str(&format!("\\u{hi:04X}\\u{lo:04x}")),
                    1 => out.push_str(&format!("\\u{{{hi:04x}}}\\u{{{lo:04X}}}")),
                    2 => out.push_str(&format!("\\u{hi:04x}\\u{{{lo:04x}}}")),
                    _ => out.push_str(&format!("\\u{{{hi:04X}}}\\u{lo:04X}")),
                }
            }
            c => out.push(c),
        }
    }
    out.push('"');
    st.emit(&out);
}

fn p_idx(i: &Idx, st: &mut Style) {
    match i {
        Idx::At(v) => st.emit(&v.to_string()),
        Idx::Last(0) => {
            st.kw("last");
            match st.next() % 6 {
                0 => {
                    st.ws();
                    st.emit("-");
                    st.ws();
                    st.emit("0");
                }
                1 => {
                    st.ws();
                    st.emit("+");
                    st.ws();
                    st.emit("0");
                }
                _ => {}
            }
        }
        Idx::Last(v) => {
            st.kw("last");
            st.ws();
            st.emit(if *v < 0 { "-" } else { "+" });
            st.ws();
            st.emit(&(*v as i64).abs().to_string());
        }
    }
}

fn p_step(s: &Step, st: &mut Style) {
    match s {
        Step::DotWild => st.emit(".*"),
        Step::BrWild => {
            st.emit("[");
            st.ws();
            st.emit("*");
            st.ws();
            st.emit("]");
        }
        Step::Field(form, name) => {
            let raw = raw_name_ok(name) && (st.plain || st.next() % 3 != 0);
            match form {
                FieldForm::Dot | FieldForm::Colon => {
                    st.emit(if *form == FieldForm::Dot { "." } else { ":" });
                    if raw {
                        let spelled = raw_spell(name, st);
                        st.emit_raw_name(&spelled);
                    } else {
                        quote(name, st);
                    }
                }
                FieldForm::Bracket => {
                    st.emit("[");
                    st.ws();
                    quote(name, st);
                    st.ws();
                    st.emit("]");
                }
            }
        }
        Step::Indices(v) => {
            st.emit("[");
            for (k, a) in v.iter().enumerate() {
                if k > 0 {
                    st.emit(",");
                }
                st.ws();
                match a {
                    AIdx::One(i) => p_idx(i, st),
                    AIdx::Slice(s, e) => {
                        p_idx(s, st);
                        st.sep();
                        st.kw("to");
                        st.sep();
                        p_idx(e, st);
                    }
                }
                st.ws();
            }
            st.emit("]");
        }
        Step::Filter(e) => {
            st.emit("?");
            st.ws();
            st.emit("(");
            st.ws();
            p_expr(e, st, 0);
            st.ws();
            st.emit(")");
        }
    }
}

fn p_steps(steps: &[Step], st: &mut Style) {
    for s in steps {
        st.ws();
        p_step(s, st);
    }
}

pub fn spell_number(n: &N, sel: u16) -> String {
    match n {
        N::U(v) => v.to_string(),
        N::I(v) => v.to_string(),
        N::F(f) => crate::textref::spell_f64(*f, sel),
    }
}

fn p_operand(o: &Operand, st: &mut Style) {
    match o {
        Operand::Path { root, steps } => {
            st.emit(if *root { "$" } else { "@" });
            p_steps(steps, st);
        }
        Operand::Lit(l) => match l {
            Lit::Null => st.emit("null"),
            Lit::Bool(true) => st.emit("true"),
            Lit::Bool(false) => st.emit("false"),
            Lit::Num(n) => {
                let sel = st.next();
                st.emit(&spell_number(n, sel));
            }
            Lit::Str(s) => quote(s, st),
        },
    }
}

/// prec: 0 = or level, 1 = and level, 2 = atom
fn p_expr(e: &Expr, st: &mut Style, prec: u8) {
    let redundant = !st.plain && st.next() % 7 == 0;
    let my = match e {
        Expr::Or(..) => 0,
        Expr::And(..) => 1,
        _ => 2,
    };
    let paren = my < prec || redundant;
    if paren {
        st.emit("(");
        st.ws();
    }
    match e {
        Expr::Or(l, r) => {
            // left-associated chains: the right operand of || is an and-level expression
            p_expr(l, st, 0);
            st.ws();
            st.emit("||");
            st.ws();
            p_expr(r, st, 1);
        }
        Expr::And(l, r) => {
            p_expr(l, st, 1);
            st.ws();
            st.emit("&&");
            st.ws();
            p_expr(r, st, 2);
        }
        Expr::Cmp(op, l, r) => {
            p_operand(l, st);
            st.ws();
            let o = match op {
                CmpOp::Eq => "==",
                CmpOp::Ne => {
                    if st.next() % 2 == 0 {
                        "!="
                    } else {
                        "<>"
                    }
                }
                CmpOp::Lt => "<",
                CmpOp::Le => "<=",
                CmpOp::Gt => ">",
                CmpOp::Ge => ">=",
            };
            st.emit(o);
            st.ws();
            p_operand(r, st);
        }
        Expr::Exists { root, steps } => {
            st.emit("exists");
            st.ws();
            st.emit("(");
            st.ws();
            st.emit(if *root { "$" } else { "@" });
            p_steps(steps, st);
            st.ws();
            st.emit(")");
        }
        Expr::Unsupported(s) => st.emit(s),
    }
    if paren {
        st.ws();
        st.emit(")");
    }
}

pub fn print(a: &PathAst, st: &mut Style) -> String {
    st.out.clear();
    st.last_raw = false;
    st.ws();
    match a {
        PathAst::Predicate(e) => p_expr(e, st, 0),
        PathAst::Steps(start, steps) => {
            match start {
                Start::Root => st.emit("$"),
                Start::Bare(n) => {
                    let spelled = raw_spell(n, st);
                    st.emit_raw_name(&spelled);
                }
                Start::None => {}
            }
            p_steps(steps, st);
        }
    }
    st.ws();
    std::mem::take(&mut st.out)
}

pub fn print_plain(a: &PathAst) -> String {
    print(a, &mut Style::new(&[], true))
}

// ---- three-valued evaluator ---------------------------------------------------------------------

#[derive(Clone, Copy, Debug, PartialEq, Eq)]
pub enum Tri {
    True,
    False,
    Unknown,
}
impl Tri {
    fn and(self, o: Tri) -> Tri {
        match (self, o) {
            (Tri::False, _) | (_, Tri::False) => Tri::False,
            (Tri::True, Tri::True) => Tri::True,
            _ => Tri::Unknown,
        }
    }
    fn or(self, o: Tri) -> Tri {
        match (self, o) {
            (Tri::True, _) | (_, Tri::True) => Tri::True,
            (Tri::False, Tri::False) => Tri::False,
            _ => Tri::Unknown,
        }
    }
}

/// an item of a result sequence; `sure == false` when a filter on the way was unknown
#[derive(Clone, Debug)]
pub struct Item<'a> {
    pub v: &'a M,
    pub sure: bool,
}

#[derive(Debug)]
pub enum EvalErr {
    /// the path has no defined meaning (arithmetic, `@` outside a filter): the library
    /// must answer with an error, not a panic
    NoMeaning(String),
}

fn resolve(i: &Idx, len: usize) -> i64 {
    match i {
        Idx::At(v) => *v as i64,
        Idx::Last(n) => len as i64 - 1 + *n as i64,
    }
}

fn apply_step<'a>(root: &'a M, items: Vec<Item<'a>>, s: &Step) -> Result<Vec<Item<'a>>, EvalErr> {
    let mut out = vec![];
    for it in items {
        match s {
            Step::DotWild => {
                if let M::Obj(o) = it.v {
                    out.extend(o.values().map(|v| Item { v, sure: it.sure }));
                }
            }
            Step::BrWild => match it.v {
                M::Arr(a) => out.extend(a.iter().map(|v| Item { v, sure: it.sure })),
                _ => out.push(it),
            },
            Step::Field(_, name) => {
                if let M::Obj(o) = it.v {
                    if let Some(v) = o.get(name) {
                        out.push(Item { v, sure: it.sure });
                    }
                }
            }
            Step::Indices(list) => {
                if let M::Arr(a) = it.v {
                    let len = a.len();
                    for ai in list {
                        match ai {
                            AIdx::One(i) => {
                                let k = resolve(i, len);
                                if k >= 0 && (k as usize) < len {
                                    out.push(Item { v: &a[k as usize], sure: it.sure });
                                }
                            }
                            AIdx::Slice(s, e) => {
                                let (s, e) = (resolve(s, len), resolve(e, len));
                                if s > e || s >= len as i64 || e < 0 {
                                    continue;
                                }
                                let (s, e) = (s.max(0), e.min(len as i64 - 1));
                                if s > e {
                                    continue;
                                }
                                let (s, e) = (s as usize, e as usize);
                                out.extend(a[s..=e].iter().map(|v| Item { v, sure: it.sure }));
                            }
                        }
                    }
                }
            }
            Step::Filter(e) => match eval_expr(root, Some(it.v), e)? {
                Tri::True => out.push(it),
                Tri::Unknown => out.push(Item { v: it.v, sure: false }),
                Tri::False => {}
            },
        }
    }
    Ok(out)
}

fn eval_steps<'a>(root: &'a M, start: &'a M, steps: &[Step]) -> Result<Vec<Item<'a>>, EvalErr> {
    let mut items = vec![Item { v: start, sure: true }];
    for s in steps {
        items = apply_step(root, items, s)?;
    }
    Ok(items)
}

fn operand_values<'a>(root: &'a M, cur: Option<&'a M>, o: &'a Operand) -> Result<Vec<Lit>, EvalErr> {
    match o {
        Operand::Lit(l) => Ok(vec![l.clone()]),
        Operand::Path { root: r, steps } => {
            let start = if *r { root } else { cur.ok_or_else(|| EvalErr::NoMeaning("`@` outside a filter".into()))? };
            let items = eval_steps(root, start, steps)?;
            // only scalar items contribute operand values
            Ok(items
                .iter()
                .filter_map(|it| match it.v {
                    M::Null => Some(Lit::Null),
                    M::Bool(b) => Some(Lit::Bool(*b)),
                    M::Num(n) => Some(Lit::Num(*n)),
                    M::Str(s) => Some(Lit::Str(s.clone())),
                    _ => None,
                })
                .collect())
        }
    }
}

fn cmp_pair(op: CmpOp, l: &Lit, r: &Lit) -> Tri {
    let ord = match (l, r) {
        (Lit::Null, Lit::Null) => Ordering::Equal,
        (Lit::Bool(a), Lit::Bool(b)) => a.cmp(b),
        (Lit::Num(a), Lit::Num(b)) => {
            // NaN has no documented meaning in a path comparison; the infinities order by value
            let nan = |n: &N| matches!(n, N::F(f) if f.is_nan());
            if nan(a) || nan(b) {
                return Tri::Unknown;
            }
            num_cmp(a, b)
        }
        (Lit::Str(a), Lit::Str(b)) => a.as_bytes().cmp(b.as_bytes()),
        // values of different kinds are never equal; how they order is not documented
        _ => return if op == CmpOp::Eq { Tri::False } else { Tri::Unknown },
    };
    let t = match op {
        CmpOp::Eq => ord == Ordering::Equal,
        CmpOp::Ne => ord != Ordering::Equal,
        CmpOp::Lt => ord == Ordering::Less,
        CmpOp::Le => ord != Ordering::Greater,
        CmpOp::Gt => ord == Ordering::Greater,
        CmpOp::Ge => ord != Ordering::Less,
    };
    if t {
        Tri::True
    } else {
        Tri::False
    }
}

pub fn eval_expr(root: &M, cur: Option<&M>, e: &Expr) -> Result<Tri, EvalErr> {
    Ok(match e {
        Expr::And(l, r) => eval_expr(root, cur, l)?.and(eval_expr(root, cur, r)?),
        Expr::Or(l, r) => eval_expr(root, cur, l)?.or(eval_expr(root, cur, r)?),
        Expr::Cmp(op, l, r) => {
            let (lv, rv) = (operand_values(root, cur, l)?, operand_values(root, cur, r)?);
            let mut res = Tri::False;
            for a in &lv {
                for b in &rv {
                    res = res.or(cmp_pair(*op, a, b));
                }
            }
            res
        }
        Expr::Exists { root: r, steps } => {
            let start = if *r { root } else { cur.ok_or_else(|| EvalErr::NoMeaning("`@` outside a filter".into()))? };
            let items = eval_steps(root, start, steps)?;
            if items.iter().any(|i| i.sure) {
                Tri::True
            } else if items.is_empty() {
                Tri::False
            } else {
                Tri::Unknown
            }
        }
        Expr::Unsupported(s) => return Err(EvalErr::NoMeaning(format!("no evaluation rule for {s}"))),
    })
}

pub enum Expect<'a> {
    Items(Vec<Item<'a>>),
    Predicate(Tri),
}

pub fn eval<'a>(root: &'a M, a: &'a PathAst) -> Result<Expect<'a>, EvalErr> {
    match a {
        PathAst::Predicate(e) => Ok(Expect::Predicate(eval_expr(root, None, e)?)),
        PathAst::Steps(start, steps) => {
            let mut items = vec![Item { v: root, sure: true }];
            if let Start::Bare(n) = start {
                items = apply_step(root, items, &Step::Field(FieldForm::Dot, n.clone()))?;
            }
            for s in steps {
                items = apply_step(root, items, s)?;
            }
            Ok(Expect::Items(items))
        }
    }
}

// ---- generation of (document, path) pairs -----------------------------------------------------------

const NAMES: &[&str] = &["a", "b", "k", "key", "k1", "k2", "name", "price", "测试", "x_y", "Z9", "1e", "0e", "2x", "e5", "last", "to", "null", "exists"];

fn lit_of(m: &M) -> Option<Lit> {
    match m {
        M::Null => Some(Lit::Null),
        M::Bool(b) => Some(Lit::Bool(*b)),
        M::Num(n) if n.is_finite() => Some(Lit::Num(match n {
            // a literal is read back as unsigned when non-negative
            N::I(v) if *v >= 0 => N::U(*v as u64),
            x => *x,
        })),
        M::Str(s) => Some(Lit::Str(s.clone())),
        _ => None,
    }
}

pub struct Rnd<'a> {
    pub ch: &'a [u16],
    pub at: usize,
}
impl<'a> Rnd<'a> {
    pub fn next(&mut self) -> u16 {
        if self.ch.is_empty() {
            return 0;
        }
        let v = self.ch[self.at % self.ch.len()];
        self.at += 1;
        v
    }
    pub fn below(&mut self, n: usize) -> usize {
        pick(self.next(), n)
    }
}

fn gen_idx(len: usize, r: &mut Rnd) -> Idx {
    match r.below(12) {
        // in range most of the time, so that later steps have something to work on
        0..=3 if len > 0 => Idx::At(r.below(len) as i32),
        4 | 5 => Idx::At(derive_index(len, r.next()).clamp(i32::MIN as i64, i32::MAX as i64) as i32),
        6 | 7 => Idx::Last(0),
        8 if len > 0 => Idx::Last(-(r.below(len) as i32)),
        9 => Idx::Last(-(r.below(len + 2) as i32)),
        10 => Idx::Last(r.below(3) as i32),
        _ => Idx::Last(match r.below(4) {
            0 => i32::MAX,
            1 => -i32::MAX,
            2 => -(len as i32),
            _ => 1 - len as i32,
        }),
    }
}

fn gen_field(names: &[String], r: &mut Rnd) -> Step {
    let form = [FieldForm::Dot, FieldForm::Dot, FieldForm::Colon, FieldForm::Bracket][r.below(4)];
    let extra = NAMES[r.below(NAMES.len())];
    // an existing key most of the time
    let mode = if r.below(10) < 7 { 0 } else { r.next() };
    let name = derive_name(names, r.next(), mode, extra);
    Step::Field(form, name)
}

/// one non-filter step chosen with knowledge of the first item of the frontier
fn gen_plain_step(front: Option<&M>, r: &mut Rnd) -> Step {
    match front {
        Some(M::Obj(o)) => {
            let keys: Vec<String> = o.keys().cloned().collect();
            match r.below(10) {
                0 | 1 => Step::DotWild,
                2 => Step::BrWild,
                3 => Step::Indices(vec![AIdx::One(Idx::At(0))]),
                _ => gen_field(&keys, r),
            }
        }
        Some(M::Arr(a)) => match r.below(10) {
            0 | 1 | 2 => Step::BrWild,
            3 => Step::DotWild,
            4 => {
                // a member step on an array, named like one of its own string elements
                let strs: Vec<String> = a.iter().filter_map(|x| if let M::Str(s) = x { Some(s.clone()) } else { None }).collect();
                gen_field(&strs, r)
            }
            _ => {
                let n = 1 + r.below(3);
                Step::Indices(
                    (0..n)
                        .map(|_| {
                            if r.below(3) == 0 {
                                AIdx::Slice(gen_idx(a.len(), r), gen_idx(a.len(), r))
                            } else {
                                AIdx::One(gen_idx(a.len(), r))
                            }
                        })
                        .collect(),
                )
            }
        },
        _ => match r.below(6) {
            0 | 1 => Step::BrWild,
            2 => Step::DotWild,
            3 => Step::Indices(vec![AIdx::One(gen_idx(1, r))]),
            _ => gen_field(&[], r),
        },
    }
}

fn gen_operand_path(root: &M, cur: Option<&M>, r: &mut Rnd) -> (Operand, Vec<Lit>) {
    let use_root = cur.is_none() || r.below(5) == 0;
    let start = if use_root { root } else { cur.unwrap() };
    let n = r.below(3);
    let mut steps = vec![];
    let mut front: Vec<Item> = vec![Item { v: start, sure: true }];
    for _ in 0..n {
        let s = gen_plain_step(front.first().map(|i| i.v), r);
        front = apply_step(root, front, &s).unwrap_or_default();
        steps.push(s);
    }
    let vals = front.iter().filter_map(|i| lit_of(i.v)).collect();
    (Operand::Path { root: use_root, steps }, vals)
}

fn near_lit(vals: &[Lit], r: &mut Rnd) -> Lit {
    if !vals.is_empty() && r.below(4) != 0 {
        let v = vals[r.below(vals.len())].clone();
        return match (r.below(5), v) {
            (0, Lit::Num(N::U(x))) => Lit::Num(N::U(x.wrapping_add(1))),
            (1, Lit::Num(N::U(x))) if x <= i64::MAX as u64 => Lit::Num(N::F(x as f64 + 0.5)),
            (0, Lit::Num(N::I(x))) => Lit::Num(N::I(x.wrapping_sub(1).min(-1))),
            (0, Lit::Num(N::F(x))) => Lit::Num(N::F(x + 1.0)),
            (0, Lit::Str(s)) => Lit::Str(format!("{s}a")),
            (1, Lit::Str(s)) if s.len() > 1 && s.is_char_boundary(1) => Lit::Str(s[..1].to_string()),
            (0, Lit::Bool(b)) => Lit::Bool(!b),
            // the other zeros: equal in value to the document's, different in sign or type
            (2 | 3, Lit::Num(n)) if n.is_zero() => Lit::Num([N::F(0.0), N::F(-0.0), N::U(0)][r.below(3)]),
            (2, Lit::Num(N::F(x))) => Lit::Num(N::F(-x)),
            (_, v) => v,
        };
    }
    match r.below(9) {
        0 => Lit::Null,
        1 => Lit::Bool(r.below(2) == 0),
        2 => Lit::Num(N::U(r.below(4) as u64)),
        3 => Lit::Num(N::I(-(1 + r.below(3) as i64))),
        4 => Lit::Num(N::F([1.5, -0.5, 1e3, 2.5e-3, 10.0][r.below(5)])),
        5 => Lit::Num(N::U([u64::MAX, 1 << 53, (1 << 53) + 1, i64::MAX as u64 + 1][r.below(4)])),
        6 => Lit::Str(WORDS_FOR_LITS[r.below(WORDS_FOR_LITS.len())].to_string()),
        7 => Lit::Str(String::new()),
        _ => Lit::Num(N::F([1e22, 123456789.125, -1e-7][r.below(3)])),
    }
}
const WORDS_FOR_LITS: &[&str] = &["a", "ab", "fiction", "K", "测", "a b", "q\"q", "\\", "1", "true"];

fn gen_atom(root: &M, cur: Option<&M>, r: &mut Rnd, depth: u32) -> Expr {
    let k = r.below(12);
    if k == 0 && depth < 2 {
        // exists with an optional nested filter
        let use_root = cur.is_none() || r.below(6) == 0;
        let start = if use_root { root } else { cur.unwrap() };
        let mut steps = vec![];
        let mut front: Vec<Item> = vec![Item { v: start, sure: true }];
        // sub-paths of up to five steps (longer than many outer paths)
        for _ in 0..(1 + [0, 0, 1, 1, 2, 3, 4][r.below(7)]) {
            let guide = front.iter().find(|i| i.v.is_container()).or(front.first()).map(|i| i.v);
            let s = gen_plain_step(guide, r);
            front = apply_step(root, front, &s).unwrap_or_default();
            steps.push(s);
        }
        if r.below(2) == 0 {
            let f = gen_expr(root, front.first().map(|i| i.v).or(Some(start)), r, depth + 1);
            steps.push(Step::Filter(Box::new(f)));
        }
        return Expr::Exists { root: use_root, steps };
    }
    let (lp, lv) = gen_operand_path(root, cur, r);
    let op = [CmpOp::Eq, CmpOp::Eq, CmpOp::Ne, CmpOp::Lt, CmpOp::Le, CmpOp::Gt, CmpOp::Ge][r.below(7)];
    match r.below(8) {
        0 => {
            // path against path
            let (rp, _) = gen_operand_path(root, cur, r);
            Expr::Cmp(op, lp, rp)
        }
        1 | 2 => Expr::Cmp(op, Operand::Lit(near_lit(&lv, r)), lp),
        _ => Expr::Cmp(op, lp, Operand::Lit(near_lit(&lv, r))),
    }
}

pub fn gen_expr(root: &M, cur: Option<&M>, r: &mut Rnd, depth: u32) -> Expr {
    let n = 1 + [0, 0, 0, 1, 1, 2][r.below(6)];
    let mut e = gen_atom(root, cur, r, depth);
    for _ in 1..n {
        let rhs = if r.below(4) == 0 && depth < 2 {
            // a parenthesised group on the right
            gen_expr(root, cur, r, depth + 1)
        } else {
            gen_atom(root, cur, r, depth)
        };
        e = if r.below(2) == 0 { Expr::And(Box::new(e), Box::new(rhs)) } else { Expr::Or(Box::new(e), Box::new(rhs)) };
    }
    e
}

/// a path built step by step against the document so that hits and misses both occur
pub fn derive_path_ast(doc: &M, ch: &[u16]) -> PathAst {
    let mut r = Rnd { ch, at: 0 };
    match r.below(40) {
        0..=4 => return PathAst::Predicate(gen_expr(doc, None, &mut r, 0)),
        // accepted by the parser but without an evaluation rule: must be an error, not a panic
        5 => {
            let name = NAMES[r.below(4)];
            let t = [
                format!("$.{name} + 1"),
                format!("-$.{name}"),
                "5 * 5".to_string(),
                format!("$[0] % $.{name}"),
                format!("exists(@.{name})"),
                "exists(@)".to_string(),
                "exists(@ ? (@ > 3))".to_string(),
                "exists(@?(@ == $))".to_string(),
                "exists(@[*] ? (@ >= 0)) || $ == null".to_string(),
                format!("$.{name} == 1 && exists(@[*])"),
                "+$[*]".to_string(),
            ][r.below(11)]
            .clone();
            return PathAst::Predicate(Expr::Unsupported(t));
        }
        6 => {
            let name = NAMES[r.below(4)];
            let t = [format!("@.{name} + 1"), "@ * 2".to_string(), "-@".to_string(), format!("@ - $.{name}")][r.below(4)].clone();
            return PathAst::Steps(Start::Root, vec![gen_plain_step(Some(doc), &mut r), Step::Filter(Box::new(Expr::Unsupported(t)))]);
        }
        _ => {}
    }
    let nsteps = [0, 1, 1, 2, 2, 3, 3, 4, 5][r.below(9)];
    let mut steps = vec![];
    let mut front: Vec<Item> = vec![Item { v: doc, sure: true }];
    for k in 0..nsteps {
        // steer by a container of the frontier when there is one, so that later steps
        // still have something to select from
        let guide = front.iter().find(|i| i.v.is_container()).or(front.first()).map(|i| i.v);
        if front.is_empty() && k > 0 && r.below(3) != 0 {
            break;
        }
        let s = if r.below(4) == 0 {
            Step::Filter(Box::new(gen_expr(doc, front.first().map(|i| i.v).or(Some(doc)), &mut r, 0)))
        } else {
            gen_plain_step(guide, &mut r)
        };
        front = apply_step(doc, front, &s).unwrap_or_default();
        steps.push(s);
    }
    // Snowflake-style starts
    let start = match (r.below(10), steps.first()) {
        (0, Some(Step::Field(FieldForm::Dot, n))) if raw_name_ok(n) && bare_start_ok(n) => {
            let n = n.clone();
            steps.remove(0);
            Start::Bare(n)
        }
        (1, Some(Step::Indices(_))) | (1, Some(Step::Field(FieldForm::Bracket, _))) => Start::None,
        _ => Start::Root,
    };
    PathAst::Steps(start, steps)
}

// ---- serialisation -------------------------------------------------------------------------------------

crate::jser_struct! {
    /// (document, path text). The text is what the library parses; the intended AST is
    /// re-derived from `choices` when needed.
    pub struct PathCase {
        pub doc: M,
        pub path: String,
    }
}

impl Jser for PathAst {
    fn to_j(&self) -> J {
        json!({"plain": print_plain(self), "debug": format!("{self:?}")})
    }
    fn from_j(j: &J) -> Result<Self, String> {
        // replay goes through the plain rendering and the library's parser
        let t = j.get("plain").and_then(|x| x.as_str()).ok_or("path: no plain text")?;
        let p = jp::parse_json_path(t.as_bytes()).map_err(|e| format!("cannot re-read path {t:?}: {e:?}"))?;
        from_lib(&p)
    }
}

/// finite documents (comparisons with NaN/inf have no documented meaning) with container
/// roots most of the time, and a path derived against the document, printed with style
pub fn arb_path_for(p: TreeParams) -> BoxedStrategy<PathCase> {
    (arb_doc(p), vec(any::<u16>(), 4..40), vec(any::<u16>(), 0..12), any::<bool>())
        .prop_map(|(doc, ch, style, plain)| {
            let ast = derive_path_ast(&doc, &ch);
            let path = print(&ast, &mut Style::new(&style, plain));
            PathCase { doc, path }
        })
        .boxed()
}

// ---- document-independent random paths (C09) ------------------------------------------------------------

fn rnd_idx(r: &mut Rnd) -> Idx {
    let big = [0, 1, 2, 7, 100, 65536, i32::MAX - 1, i32::MAX];
    match r.below(7) {
        0 | 1 => Idx::At(big[r.below(big.len())]),
        2 => Idx::At(-big[r.below(big.len())]),
        3 => Idx::At(i32::MIN),
        4 => Idx::Last(0),
        5 => Idx::Last(-big[r.below(big.len())]),
        _ => Idx::Last(big[r.below(big.len())]),
    }
}
fn rnd_name(r: &mut Rnd, strs: &[String]) -> String {
    if !strs.is_empty() && r.below(3) == 0 {
        strs[r.below(strs.len())].clone()
    } else {
        NAMES[r.below(NAMES.len())].to_string()
    }
}
fn rnd_plain_step(r: &mut Rnd, strs: &[String]) -> Step {
    match r.below(9) {
        0 => Step::DotWild,
        1 => Step::BrWild,
        2 | 3 | 4 => Step::Field([FieldForm::Dot, FieldForm::Colon, FieldForm::Bracket][r.below(3)], rnd_name(r, strs)),
        _ => {
            let n = 1 + r.below(3);
            Step::Indices((0..n).map(|_| if r.below(3) == 0 { AIdx::Slice(rnd_idx(r), rnd_idx(r)) } else { AIdx::One(rnd_idx(r)) }).collect())
        }
    }
}
fn rnd_lit(r: &mut Rnd, strs: &[String]) -> Lit {
    match r.below(12) {
        0 => Lit::Null,
        1 => Lit::Bool(true),
        2 => Lit::Bool(false),
        3 => Lit::Num(N::U([0, 1, 10, 255, 65536, u64::MAX, 1 << 53][r.below(7)])),
        4 => Lit::Num(N::I([-1, -10, -129, i64::MIN, -(1 << 53) - 1][r.below(5)])),
        5 | 6 => Lit::Num(N::F([1.5, -0.5, 0.1, 1e3, 2.5e-3, 10.0, -0.0, 1e22, 1e300, 5e-324, 123456789.125, 18446744073709551616.0][r.below(12)])),
        7 => Lit::Str(String::new()),
        8 | 9 if !strs.is_empty() => Lit::Str(strs[r.below(strs.len())].clone()),
        _ => Lit::Str(WORDS_FOR_LITS[r.below(WORDS_FOR_LITS.len())].to_string()),
    }
}
fn rnd_operand_path(r: &mut Rnd, strs: &[String], allow_current: bool) -> Operand {
    let root = !allow_current || r.below(5) == 0;
    let n = r.below(3);
    Operand::Path { root, steps: (0..n).map(|_| rnd_plain_step(r, strs)).collect() }
}
fn rnd_atom(r: &mut Rnd, strs: &[String], allow_current: bool, depth: u32) -> Expr {
    if r.below(10) == 0 && depth < 2 {
        let root = !allow_current || r.below(5) == 0;
        let mut steps: Vec<Step> = (0..1 + r.below(2)).map(|_| rnd_plain_step(r, strs)).collect();
        if r.below(2) == 0 {
            steps.push(Step::Filter(Box::new(rnd_expr(r, strs, true, depth + 1))));
        }
        return Expr::Exists { root, steps };
    }
    let op = [CmpOp::Eq, CmpOp::Ne, CmpOp::Lt, CmpOp::Le, CmpOp::Gt, CmpOp::Ge][r.below(6)];
    let p = rnd_operand_path(r, strs, allow_current);
    match r.below(8) {
        0 => Expr::Cmp(op, p, rnd_operand_path(r, strs, allow_current)),
        1 | 2 => Expr::Cmp(op, Operand::Lit(rnd_lit(r, strs)), p),
        _ => Expr::Cmp(op, p, Operand::Lit(rnd_lit(r, strs))),
    }
}
pub fn rnd_expr(r: &mut Rnd, strs: &[String], allow_current: bool, depth: u32) -> Expr {
    let n = 1 + [0, 0, 1, 1, 2, 3][r.below(6)];
    let mut e = rnd_atom(r, strs, allow_current, depth);
    for _ in 1..n {
        let rhs = if r.below(4) == 0 && depth < 2 { rnd_expr(r, strs, allow_current, depth + 1) } else { rnd_atom(r, strs, allow_current, depth) };
        e = if r.below(2) == 0 { Expr::And(Box::new(e), Box::new(rhs)) } else { Expr::Or(Box::new(e), Box::new(rhs)) };
    }
    e
}
pub fn random_path_ast(ch: &[u16], strs: &[String]) -> PathAst {
    let mut r = Rnd { ch, at: 0 };
    if r.below(6) == 0 {
        return PathAst::Predicate(rnd_expr(&mut r, strs, false, 0));
    }
    let n = [0, 1, 2, 2, 3, 3, 4, 6][r.below(8)];
    let mut steps: Vec<Step> = vec![];
    for _ in 0..n {
        if r.below(4) == 0 {
            steps.push(Step::Filter(Box::new(rnd_expr(&mut r, strs, true, 0))));
        } else {
            steps.push(rnd_plain_step(&mut r, strs));
        }
    }
    let start = match (r.below(8), steps.first()) {
        (0, Some(Step::Field(FieldForm::Dot, n))) if raw_name_ok(n) && bare_start_ok(n) => {
            let n = n.clone();
            steps.remove(0);
            Start::Bare(n)
        }
        (1, Some(Step::Indices(_))) | (1, Some(Step::Field(FieldForm::Bracket, _))) => Start::None,
        _ => Start::Root,
    };
    PathAst::Steps(start, steps)
}

/// A bare first name is tried as a predicate first: a name that is itself a complete
/// literal followed by an operator-looking step would be read as one. Names that are a
/// number or a keyword literal are therefore not used bare; `1e`, `2x`, `k1` are.
pub fn bare_start_ok(n: &str) -> bool {
    !matches!(n, "null" | "true" | "false") && n.parse::<f64>().is_err() && !n.starts_with(|c: char| c == '+' || c == '-')
}

pub fn count_atoms(e: &Expr) -> usize {
    match e {
        Expr::And(l, r) | Expr::Or(l, r) => count_atoms(l) + count_atoms(r),
        Expr::Exists { steps, .. } => 1 + steps.iter().map(|s| if let Step::Filter(f) = s { count_atoms(f) } else { 0 }).sum::<usize>(),
        _ => 1,
    }
}
pub fn ast_stats(a: &PathAst) -> (usize, usize, bool) {
    // (steps, filter atoms, has a non-integer literal)
    fn lit_nonint(e: &Expr) -> bool {
        let ol = |o: &Operand| matches!(o, Operand::Lit(Lit::Num(N::F(_))) | Operand::Lit(Lit::Str(_)) | Operand::Lit(Lit::Null) | Operand::Lit(Lit::Bool(_)));
        match e {
            Expr::Cmp(_, l, r) => ol(l) || ol(r),
            Expr::And(l, r) | Expr::Or(l, r) => lit_nonint(l) || lit_nonint(r),
            Expr::Exists { steps, .. } => steps.iter().any(|s| matches!(s, Step::Filter(f) if lit_nonint(f))),
            _ => false,
        }
    }
    match a {
        PathAst::Predicate(e) => (1, count_atoms(e), lit_nonint(e)),
        PathAst::Steps(_, steps) => (
            steps.len(),
            steps.iter().map(|s| if let Step::Filter(f) = s { count_atoms(f) } else { 0 }).sum(),
            steps.iter().any(|s| matches!(s, Step::Filter(f) if lit_nonint(f))),
        ),
    }
}
/// all names and string literals of a path need neither quoting nor escaping
pub fn all_text_plain(a: &PathAst) -> bool {
    fn step(s: &Step) -> bool {
        match s {
            Step::Field(_, n) => plain_text_ok(n),
            Step::Filter(e) => expr(e),
            _ => true,
        }
    }
    fn operand(o: &Operand) -> bool {
        match o {
            Operand::Path { steps, .. } => steps.iter().all(step),
            Operand::Lit(Lit::Str(s)) => plain_text_ok(s),
            _ => true,
        }
    }
    fn expr(e: &Expr) -> bool {
        match e {
            Expr::Cmp(_, l, r) => operand(l) && operand(r),
            Expr::And(l, r) | Expr::Or(l, r) => expr(l) && expr(r),
            Expr::Exists { steps, .. } => steps.iter().all(step),
            // arithmetic: judge every quoted item of the debug rendering
            Expr::Unsupported(d) => {
                let mut parts = d.split('"');
                parts.next();
                let mut ok = true;
                while let Some(inside) = parts.next() {
                    ok &= plain_text_ok(inside);
                    parts.next();
                }
                ok && !d.contains('\\')
            }
        }
    }
    match a {
        PathAst::Predicate(e) => expr(e),
        PathAst::Steps(st, steps) => (match st {
            Start::Bare(n) => plain_text_ok(n),
            _ => true,
        }) && steps.iter().all(step),
    }
}
