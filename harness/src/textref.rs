//! Reference JSON text machinery, independent of the library's parser:
//!  * `ref_parse`   — recursive-descent parser, strict RFC 8259 or RFC 8259 plus exactly
//!                    the relaxations property C02 names;
//!  * `TDoc`        — a *spelled* document (every lexical choice explicit), with
//!                    `render` (bytes) and `meaning` (the value it denotes, by construction);
//!  * generators for spelled documents and `spell_model` to spell a given model tree.
//! Numbers are classified as the property says (fits u64 / negative fits i64 -> exact
//! integer, anything else the nearest double) using Rust's std float parser, which is
//! correctly rounded and unrelated to the fast_float2 crate the library uses.

use crate::engine::pick;
use crate::jser::Jser;
use crate::model::{M, N};
use proptest::collection::vec;
use proptest::prelude::*;
use serde_json::{json, Value as J};
use std::collections::BTreeMap;

#[derive(Clone, Copy, PartialEq, Eq, Debug)]
pub enum Mode {
    Strict,
    Relaxed,
}

pub const MAX_DEPTH: usize = 400;

struct P<'a> {
    b: &'a [u8],
    i: usize,
    mode: Mode,
}

/// number literal text -> value, by the documented classification
pub fn classify_number(s: &str) -> Result<N, String> {
    let neg = s.starts_with('-');
    let plain = !s.contains(['.', 'e', 'E']);
    if plain {
        if !neg {
            if let Ok(v) = s.parse::<u64>() {
                return Ok(N::U(v));
            }
        } else if let Ok(v) = s.parse::<i64>() {
            return Ok(N::I(v));
        }
    }
    s.parse::<f64>().map(N::F).map_err(|e| format!("std float parser rejects {s:?}: {e}"))
}

impl<'a> P<'a> {
    fn peek(&self) -> Option<u8> {
        self.b.get(self.i).copied()
    }
    fn ws(&mut self) {
        loop {
            match self.peek() {
                Some(b' ' | b'\t' | b'\n' | b'\r') => self.i += 1,
                Some(0x0C) if self.mode == Mode::Relaxed => self.i += 1,
                Some(b'\\') if self.mode == Mode::Relaxed => {
                    let r = &self.b[self.i + 1..];
                    if matches!(r.first(), Some(b'n' | b'r' | b't')) {
                        self.i += 2;
                    } else if r.starts_with(b"x0C") {
                        self.i += 4;
                    } else {
                        return;
                    }
                }
                _ => return,
            }
        }
    }
    fn lit(&mut self, w: &[u8]) -> Result<(), String> {
        if self.b[self.i..].starts_with(w) {
            self.i += w.len();
            Ok(())
        } else {
            Err(format!("bad literal at {}", self.i))
        }
    }
    fn value(&mut self, depth: usize) -> Result<M, String> {
        if depth > MAX_DEPTH {
            return Err("DEPTH".into());
        }
        self.ws();
        match self.peek() {
            None => Err("eof".into()),
            Some(b'n') => self.lit(b"null").map(|_| M::Null),
            Some(b't') => self.lit(b"true").map(|_| M::Bool(true)),
            Some(b'f') => self.lit(b"false").map(|_| M::Bool(false)),
            Some(b'-' | b'0'..=b'9') => self.number(),
            Some(b'"') => self.string().map(M::Str),
            Some(b'[') => {
                self.i += 1;
                let mut out = vec![];
                self.ws();
                if self.peek() == Some(b']') {
                    self.i += 1;
                    return Ok(M::Arr(out));
                }
                loop {
                    out.push(self.value(depth + 1)?);
                    self.ws();
                    match self.peek() {
                        Some(b',') => self.i += 1,
                        Some(b']') => {
                            self.i += 1;
                            return Ok(M::Arr(out));
                        }
                        _ => return Err(format!("expected , or ] at {}", self.i)),
                    }
                }
            }
            Some(b'{') => {
                self.i += 1;
                let mut out = BTreeMap::new();
                self.ws();
                if self.peek() == Some(b'}') {
                    self.i += 1;
                    return Ok(M::Obj(out));
                }
                loop {
                    self.ws();
                    if self.peek() != Some(b'"') {
                        // the library parses any value in key position before rejecting a
                        // non-string key; either way the document is rejected
                        return Err(format!("key must be a string at {}", self.i));
                    }
                    let k = self.string()?;
                    self.ws();
                    if self.peek() != Some(b':') {
                        return Err(format!("expected : at {}", self.i));
                    }
                    self.i += 1;
                    let v = self.value(depth + 1)?;
                    out.insert(k, v); // last duplicate wins
                    self.ws();
                    match self.peek() {
                        Some(b',') => self.i += 1,
                        Some(b'}') => {
                            self.i += 1;
                            return Ok(M::Obj(out));
                        }
                        _ => return Err(format!("expected , or }} at {}", self.i)),
                    }
                }
            }
            Some(c) => Err(format!("unexpected byte {c:#x} at {}", self.i)),
        }
    }
    fn digits(&mut self) -> usize {
        let s = self.i;
        while matches!(self.peek(), Some(b'0'..=b'9')) {
            self.i += 1;
        }
        self.i - s
    }
    fn number(&mut self) -> Result<M, String> {
        let s = self.i;
        if self.peek() == Some(b'-') {
            self.i += 1;
        }
        match self.peek() {
            Some(b'0') => {
                self.i += 1;
                if matches!(self.peek(), Some(b'0'..=b'9')) {
                    return Err("leading zero".into());
                }
            }
            Some(b'1'..=b'9') => {
                self.digits();
            }
            _ => return Err("digit expected".into()),
        }
        if self.peek() == Some(b'.') {
            self.i += 1;
            if self.digits() == 0 {
                return Err("fraction digits expected".into());
            }
        }
        if matches!(self.peek(), Some(b'e' | b'E')) {
            self.i += 1;
            if matches!(self.peek(), Some(b'+' | b'-')) {
                self.i += 1;
            }
            if self.digits() == 0 {
                return Err("exponent digits expected".into());
            }
        }
        let txt = std::str::from_utf8(&self.b[s..self.i]).unwrap();
        classify_number(txt).map(M::Num)
    }
    fn hex4(&mut self) -> Result<(u16, [u8; 4]), String> {
        let bracket = self.mode == Mode::Relaxed && self.peek() == Some(b'{');
        if bracket {
            self.i += 1;
        }
        let d = self.b.get(self.i..self.i + 4).ok_or("short \\u escape")?;
        let mut v: u16 = 0;
        let mut raw = [0u8; 4];
        for (k, c) in d.iter().enumerate() {
            let h = (*c as char).to_digit(16).ok_or("bad hex digit")?;
            v = (v << 4) | h as u16;
            raw[k] = *c;
        }
        self.i += 4;
        if bracket {
            if self.peek() != Some(b'}') {
                return Err("missing } in \\u{..}".into());
            }
            self.i += 1;
        }
        Ok((v, raw))
    }
    fn string(&mut self) -> Result<String, String> {
        self.i += 1; // opening quote
        let mut out: Vec<u8> = vec![];
        let lone = |out: &mut Vec<u8>, raw: &[u8; 4]| {
            out.extend_from_slice(b"\\u");
            out.extend_from_slice(raw);
        };
        loop {
            let c = self.peek().ok_or("unterminated string")?;
            self.i += 1;
            match c {
                b'"' => break,
                b'\\' => {
                    let e = self.peek().ok_or("eof in escape")?;
                    self.i += 1;
                    match e {
                        b'"' => out.push(b'"'),
                        b'\\' => out.push(b'\\'),
                        b'/' => out.push(b'/'),
                        b'b' => out.push(8),
                        b'f' => out.push(12),
                        b'n' => out.push(10),
                        b'r' => out.push(13),
                        b't' => out.push(9),
                        b'u' => {
                            let (v, raw) = self.hex4()?;
                            match v {
                                0xD800..=0xDBFF => {
                                    // a high surrogate pairs with an immediately following
                                    // low-surrogate escape; otherwise it stays literal text and
                                    // whatever follows is read on its own
                                    let save = self.i;
                                    let mut paired = false;
                                    if self.b[self.i..].starts_with(b"\\u") {
                                        self.i += 2;
                                        if let Ok((lo, _)) = self.hex4() {
                                            if (0xDC00..=0xDFFF).contains(&lo) {
                                                let cp = 0x10000 + (((v - 0xD800) as u32) << 10) + (lo - 0xDC00) as u32;
                                                let ch = char::from_u32(cp).unwrap();
                                                let mut tmp = [0u8; 4];
                                                out.extend_from_slice(ch.encode_utf8(&mut tmp).as_bytes());
                                                paired = true;
                                            }
                                        }
                                    }
                                    if !paired {
                                        self.i = save;
                                        if self.mode == Mode::Strict {
                                            return Err("unpaired surrogate".into());
                                        }
                                        lone(&mut out, &raw);
                                    }
                                }
                                0xDC00..=0xDFFF => {
                                    if self.mode == Mode::Strict {
                                        return Err("unpaired surrogate".into());
                                    }
                                    lone(&mut out, &raw);
                                }
                                _ => {
                                    let ch = char::from_u32(v as u32).unwrap();
                                    let mut tmp = [0u8; 4];
                                    out.extend_from_slice(ch.encode_utf8(&mut tmp).as_bytes());
                                }
                            }
                        }
                        _ => return Err(format!("bad escape \\{}", e as char)),
                    }
                }
                0x00..=0x1F if self.mode == Mode::Strict => return Err("raw control character".into()),
                _ => out.push(c),
            }
        }
        String::from_utf8(out).map_err(|_| "invalid utf-8 in string".to_string())
    }
}

pub fn ref_parse(b: &[u8], mode: Mode) -> Result<M, String> {
    let mut p = P { b, i: 0, mode };
    let v = p.value(0)?;
    p.ws();
    if p.i != b.len() {
        return Err(format!("trailing bytes at {}", p.i));
    }
    Ok(v)
}

/// maximum bracket nesting of a byte string, ignoring string literals roughly (used to
/// keep C02 away from C20's subject)
pub fn bracket_depth(b: &[u8]) -> usize {
    let (mut d, mut mx) = (0usize, 0usize);
    for c in b {
        match c {
            b'[' | b'{' => {
                d += 1;
                mx = mx.max(d);
            }
            b']' | b'}' => d = d.saturating_sub(1),
            _ => {}
        }
    }
    mx
}

// ---- spelled documents ----------------------------------------------------------

#[derive(Clone, Debug, PartialEq)]
pub enum Piece {
    /// the character written raw (UTF-8)
    Raw(char),
    /// short escape \" \\ \/ \b \f \n \r \t (only for the eight characters that have one)
    Short(char),
    /// \uXXXX for a BMP scalar value; `upper`: hex digit case; `bracket`: \u{XXXX}
    U4 { c: char, upper: bool, bracket: bool },
    /// astral character as a surrogate pair of two escapes
    Pair { c: char, upper: bool, bracket_hi: bool, bracket_lo: bool },
    /// an unpaired surrogate escape: stays the literal six characters \uXXXX
    Lone { v: u16, upper: bool, bracket: bool },
}

#[derive(Clone, Debug, PartialEq)]
pub enum TDoc {
    Null,
    True,
    False,
    /// number literal text (grammar-valid by construction)
    Num(String),
    Str(Vec<Piece>),
    Arr(Vec<TDoc>),
    /// members in written order, duplicates allowed
    Obj(Vec<(Vec<Piece>, TDoc)>),
}

fn hex4(v: u16, upper: bool) -> String {
    if upper {
        format!("{v:04X}")
    } else {
        format!("{v:04x}")
    }
}

fn render_pieces(ps: &[Piece], out: &mut Vec<u8>) {
    out.push(b'"');
    for p in ps {
        match p {
            Piece::Raw(c) => {
                let mut t = [0u8; 4];
                out.extend_from_slice(c.encode_utf8(&mut t).as_bytes());
            }
            Piece::Short(c) => {
                out.push(b'\\');
                out.push(match c {
                    '"' => b'"',
                    '\\' => b'\\',
                    '/' => b'/',
                    '\u{8}' => b'b',
                    '\u{c}' => b'f',
                    '\n' => b'n',
                    '\r' => b'r',
                    '\t' => b't',
                    _ => unreachable!("no short escape for {c:?}"),
                });
            }
            Piece::U4 { c, upper, bracket } => {
                let h = hex4(*c as u32 as u16, *upper);
                out.extend_from_slice(if *bracket { format!("\\u{{{h}}}") } else { format!("\\u{h}") }.as_bytes());
            }
            Piece::Pair { c, upper, bracket_hi, bracket_lo } => {
                let v = *c as u32 - 0x10000;
                let hi = hex4(0xD800 + (v >> 10) as u16, *upper);
                let lo = hex4(0xDC00 + (v & 0x3FF) as u16, *upper);
                out.extend_from_slice(if *bracket_hi { format!("\\u{{{hi}}}") } else { format!("\\u{hi}") }.as_bytes());
                out.extend_from_slice(if *bracket_lo { format!("\\u{{{lo}}}") } else { format!("\\u{lo}") }.as_bytes());
            }
            Piece::Lone { v, upper, bracket } => {
                let h = hex4(*v, *upper);
                out.extend_from_slice(if *bracket { format!("\\u{{{h}}}") } else { format!("\\u{h}") }.as_bytes());
            }
        }
    }
    out.push(b'"');
}

/// what a string literal denotes. A lone high surrogate immediately followed by a
/// piece that is itself a low-surrogate escape would pair up, so generators never
/// produce that adjacency (see `fix_adjacency`).
pub fn pieces_meaning(ps: &[Piece]) -> String {
    let mut s = String::new();
    for p in ps {
        match p {
            Piece::Raw(c) | Piece::Short(c) => s.push(*c),
            Piece::U4 { c, .. } | Piece::Pair { c, .. } => s.push(*c),
            Piece::Lone { v, upper, .. } => {
                s.push_str("\\u");
                s.push_str(&hex4(*v, *upper));
            }
        }
    }
    s
}

/// whitespace forms by mode
const WS_STRICT: &[&str] = &["", "", "", " ", "\t", "\n", "\r", "  ", "\r\n"];
const WS_RELAXED: &[&str] = &["", "", " ", "\t", "\n", "\r", "\x0C", "\\n", "\\r", "\\t", "\\x0C", " \\n\x0C"];

pub struct Ws<'a> {
    pub choices: &'a [u16],
    pub at: usize,
    pub relaxed: bool,
    /// no whitespace at all (used when the text must not start with a space etc.)
    pub none: bool,
}
impl<'a> Ws<'a> {
    fn next(&mut self) -> &'static str {
        if self.none || self.choices.is_empty() {
            return "";
        }
        let c = self.choices[self.at % self.choices.len()];
        self.at += 1;
        let t = if self.relaxed { WS_RELAXED } else { WS_STRICT };
        t[pick(c, t.len())]
    }
}

fn render_into(d: &TDoc, ws: &mut Ws, out: &mut Vec<u8>) {
    match d {
        TDoc::Null => out.extend_from_slice(b"null"),
        TDoc::True => out.extend_from_slice(b"true"),
        TDoc::False => out.extend_from_slice(b"false"),
        TDoc::Num(s) => out.extend_from_slice(s.as_bytes()),
        TDoc::Str(p) => render_pieces(p, out),
        TDoc::Arr(a) => {
            out.push(b'[');
            out.extend_from_slice(ws.next().as_bytes());
            for (i, x) in a.iter().enumerate() {
                if i > 0 {
                    out.push(b',');
                    out.extend_from_slice(ws.next().as_bytes());
                }
                render_into(x, ws, out);
                out.extend_from_slice(ws.next().as_bytes());
            }
            out.push(b']');
        }
        TDoc::Obj(o) => {
            out.push(b'{');
            out.extend_from_slice(ws.next().as_bytes());
            for (i, (k, v)) in o.iter().enumerate() {
                if i > 0 {
                    out.push(b',');
                    out.extend_from_slice(ws.next().as_bytes());
                }
                render_pieces(k, out);
                out.extend_from_slice(ws.next().as_bytes());
                out.push(b':');
                out.extend_from_slice(ws.next().as_bytes());
                render_into(v, ws, out);
                out.extend_from_slice(ws.next().as_bytes());
            }
            out.push(b'}');
        }
    }
}

/// `lead`: allow whitespace before the document
pub fn render(d: &TDoc, ws_choices: &[u16], relaxed: bool, lead: bool) -> Vec<u8> {
    let mut out = vec![];
    let mut ws = Ws { choices: ws_choices, at: 0, relaxed, none: false };
    if lead {
        out.extend_from_slice(ws.next().as_bytes());
    }
    render_into(d, &mut ws, &mut out);
    out.extend_from_slice(ws.next().as_bytes());
    out
}

pub fn meaning(d: &TDoc) -> M {
    match d {
        TDoc::Null => M::Null,
        TDoc::True => M::Bool(true),
        TDoc::False => M::Bool(false),
        TDoc::Num(s) => M::Num(classify_number(s).expect("generated number literal must be valid")),
        TDoc::Str(p) => M::Str(pieces_meaning(p)),
        TDoc::Arr(a) => M::Arr(a.iter().map(meaning).collect()),
        TDoc::Obj(o) => {
            let mut m = BTreeMap::new();
            for (k, v) in o {
                m.insert(pieces_meaning(k), meaning(v));
            }
            M::Obj(m)
        }
    }
}

pub fn uses_relaxation(d: &TDoc) -> bool {
    fn pieces(ps: &[Piece]) -> bool {
        ps.iter().any(|p| match p {
            Piece::Raw(c) => (*c as u32) < 0x20,
            Piece::U4 { bracket, .. } => *bracket,
            Piece::Pair { bracket_hi, bracket_lo, .. } => *bracket_hi || *bracket_lo,
            Piece::Lone { .. } => true,
            _ => false,
        })
    }
    match d {
        TDoc::Str(p) => pieces(p),
        TDoc::Arr(a) => a.iter().any(uses_relaxation),
        TDoc::Obj(o) => o.iter().any(|(k, v)| pieces(k) || uses_relaxation(v)),
        _ => false,
    }
}
pub fn has_escape(d: &TDoc) -> bool {
    fn pieces(ps: &[Piece]) -> bool {
        ps.iter().any(|p| !matches!(p, Piece::Raw(_)))
    }
    match d {
        TDoc::Str(p) => pieces(p),
        TDoc::Arr(a) => a.iter().any(has_escape),
        TDoc::Obj(o) => o.iter().any(|(k, v)| pieces(k) || has_escape(v)),
        _ => false,
    }
}
pub fn has_interesting_number(d: &TDoc) -> bool {
    match d {
        TDoc::Num(s) => s.contains(['.', 'e', 'E']) || s.len() > 15,
        TDoc::Arr(a) => a.iter().any(has_interesting_number),
        TDoc::Obj(o) => o.iter().any(|(_, v)| has_interesting_number(v)),
        _ => false,
    }
}

// ---- Jser for TDoc (replay files) ---------------------------------------------------

impl Jser for Piece {
    fn to_j(&self) -> J {
        match self {
            Piece::Raw(c) => json!({"raw": c.to_string()}),
            Piece::Short(c) => json!({"short": c.to_string()}),
            Piece::U4 { c, upper, bracket } => json!({"u4": c.to_string(), "upper": upper, "bracket": bracket}),
            Piece::Pair { c, upper, bracket_hi, bracket_lo } => {
                json!({"pair": c.to_string(), "upper": upper, "bhi": bracket_hi, "blo": bracket_lo})
            }
            Piece::Lone { v, upper, bracket } => json!({"lone": v, "upper": upper, "bracket": bracket}),
        }
    }
    fn from_j(j: &J) -> Result<Self, String> {
        let ch = |k: &str| j.get(k).and_then(|x| x.as_str()).and_then(|s| s.chars().next());
        let b = |k: &str| j.get(k).and_then(|x| x.as_bool()).unwrap_or(false);
        if let Some(c) = ch("raw") {
            return Ok(Piece::Raw(c));
        }
        if let Some(c) = ch("short") {
            return Ok(Piece::Short(c));
        }
        if let Some(c) = ch("u4") {
            return Ok(Piece::U4 { c, upper: b("upper"), bracket: b("bracket") });
        }
        if let Some(c) = ch("pair") {
            return Ok(Piece::Pair { c, upper: b("upper"), bracket_hi: b("bhi"), bracket_lo: b("blo") });
        }
        if let Some(v) = j.get("lone").and_then(|x| x.as_u64()) {
            return Ok(Piece::Lone { v: v as u16, upper: b("upper"), bracket: b("bracket") });
        }
        Err("bad piece".into())
    }
}
impl Jser for TDoc {
    fn to_j(&self) -> J {
        match self {
            TDoc::Null => J::Null,
            TDoc::True => J::Bool(true),
            TDoc::False => J::Bool(false),
            TDoc::Num(s) => json!({"num": s}),
            TDoc::Str(p) => json!({"str": p.to_j()}),
            TDoc::Arr(a) => J::Array(a.iter().map(|x| x.to_j()).collect()),
            TDoc::Obj(o) => json!({"obj": o.iter().map(|(k, v)| json!([k.to_j(), v.to_j()])).collect::<Vec<_>>()}),
        }
    }
    fn from_j(j: &J) -> Result<Self, String> {
        Ok(match j {
            J::Null => TDoc::Null,
            J::Bool(true) => TDoc::True,
            J::Bool(false) => TDoc::False,
            J::Array(a) => TDoc::Arr(a.iter().map(TDoc::from_j).collect::<Result<_, _>>()?),
            J::Object(o) => {
                if let Some(s) = o.get("num").and_then(|x| x.as_str()) {
                    TDoc::Num(s.to_string())
                } else if let Some(p) = o.get("str") {
                    TDoc::Str(Vec::<Piece>::from_j(p)?)
                } else if let Some(ms) = o.get("obj").and_then(|x| x.as_array()) {
                    let mut out = vec![];
                    for m in ms {
                        out.push((Vec::<Piece>::from_j(&m[0])?, TDoc::from_j(&m[1])?));
                    }
                    TDoc::Obj(out)
                } else {
                    return Err("bad tdoc".into());
                }
            }
            _ => return Err("bad tdoc".into()),
        })
    }
}

// ---- generators ---------------------------------------------------------------------

fn short_escapable(c: char) -> bool {
    matches!(c, '"' | '\\' | '/' | '\u{8}' | '\u{c}' | '\n' | '\r' | '\t')
}

/// spell one character; `relaxed` allows raw controls and bracket forms
pub fn spell_char(c: char, sel: u16, relaxed: bool) -> Piece {
    let upper = sel & 0x100 != 0;
    let bracket = relaxed && sel & 0x200 != 0;
    let must_escape = c == '"' || c == '\\' || (!relaxed && (c as u32) < 0x20);
    let astral = c as u32 >= 0x10000;
    let mode = sel % 8;
    if astral {
        return if mode < 5 {
            Piece::Raw(c)
        } else {
            Piece::Pair { c, upper, bracket_hi: bracket, bracket_lo: relaxed && sel & 0x400 != 0 }
        };
    }
    if short_escapable(c) && (mode < 3 || (must_escape && mode < 6)) {
        return Piece::Short(c);
    }
    if must_escape || mode == 7 || (mode == 6 && !c.is_ascii_alphanumeric()) {
        return Piece::U4 { c, upper, bracket };
    }
    Piece::Raw(c)
}

/// a lone high surrogate directly followed by a low-surrogate escape would pair up and a
/// lone high followed by a pair's first escape is still lone; only the first adjacency
/// changes the meaning, so break it up with a raw character
pub fn fix_adjacency(ps: &mut Vec<Piece>) {
    let mut i = 0;
    while i + 1 < ps.len() {
        let hi = matches!(ps[i], Piece::Lone { v, .. } if (0xD800..=0xDBFF).contains(&v));
        let lo_next = matches!(ps[i + 1], Piece::Lone { v, .. } if (0xDC00..=0xDFFF).contains(&v));
        if hi && lo_next {
            ps.insert(i + 1, Piece::Raw('-'));
        }
        i += 1;
    }
}

pub fn spell_string(s: &str, sels: &[u16], relaxed: bool) -> Vec<Piece> {
    s.chars()
        .enumerate()
        .map(|(i, c)| spell_char(c, if sels.is_empty() { 0 } else { sels[i % sels.len()] }, relaxed))
        .collect()
}

pub fn arb_pieces(relaxed: bool) -> BoxedStrategy<Vec<Piece>> {
    let ch = (crate::gen::arb_char(), any::<u16>()).prop_map(move |(c, sel)| spell_char(c, sel, relaxed));
    let piece = if relaxed {
        prop_oneof![
            12 => ch,
            1 => (0xD800u16..=0xDFFF, any::<bool>(), any::<bool>()).prop_map(|(v, upper, bracket)| Piece::Lone { v, upper, bracket }),
            1 => (any::<bool>(), any::<bool>()).prop_map(|(upper, bracket)| Piece::Lone { v: 0xD800, upper, bracket }),
        ]
        .boxed()
    } else {
        ch.boxed()
    };
    prop_oneof![
        3 => (crate::gen::arb_string(), vec(any::<u16>(), 1..4)).prop_map(move |(s, sels)| spell_string(&s, &sels, relaxed)),
        4 => vec(piece, 0..8),
    ]
    .prop_map(|mut v| {
        fix_adjacency(&mut v);
        v
    })
    .boxed()
}

fn digits(n: std::ops::Range<usize>) -> BoxedStrategy<String> {
    vec(0u8..10, n).prop_map(|v| v.into_iter().map(|d| (b'0' + d) as char).collect()).boxed()
}

/// grammar-valid number literals of every shape
pub fn arb_number_text() -> BoxedStrategy<String> {
    let int_part = prop_oneof![
        2 => Just("0".to_string()),
        4 => (1u8..10, digits(0..5)).prop_map(|(d, r)| format!("{d}{r}")),
        2 => (1u8..10, digits(14..24)).prop_map(|(d, r)| format!("{d}{r}")),
        1 => (1u8..10, digits(30..330)).prop_map(|(d, r)| format!("{d}{r}")),
    ];
    let edges = prop_oneof![
        Just("18446744073709551615".to_string()),
        Just("18446744073709551616".to_string()),
        Just("18446744073709551614".to_string()),
        Just("9223372036854775807".to_string()),
        Just("9223372036854775808".to_string()),
        Just("-9223372036854775808".to_string()),
        Just("-9223372036854775809".to_string()),
        Just("-0".to_string()),
        Just("-0.0".to_string()),
        Just("0e0".to_string()),
        Just("9007199254740993".to_string()),
        Just("9007199254740993.0".to_string()),
        Just("2.2250738585072011e-308".to_string()),
        Just("2.2250738585072012e-308".to_string()),
        Just("4.9e-324".to_string()),
        Just("2.4703282292062327e-324".to_string()),
        Just("2.4703282292062328e-324".to_string()),
        Just("1.7976931348623157e308".to_string()),
        Just("1.7976931348623158e308".to_string()),
        Just("1.7976931348623159e308".to_string()),
        Just("1e309".to_string()),
        Just("-1e309".to_string()),
        Just("1e-400".to_string()),
        Just("123456789012345678901234567890e-10".to_string()),
        Just("0.1".to_string()),
        Just("1E400".to_string()),
        Just("9007199254740992.5".to_string()),
        Just("9007199254740993.5".to_string()),
        Just("1.00000000000000011102230246251565404236316680908203125".to_string()),
        Just("1.00000000000000011102230246251565404236316680908203124".to_string()),
        Just("1.00000000000000011102230246251565404236316680908203126".to_string()),
        // long exponent fields whose leading zeros make the real exponent small
        Just("1E+0000000005".to_string()),
        Just("2.5e-0000000003".to_string()),
        Just("1e00000000000000000001".to_string()),
        Just("-7E-00000000000000000000".to_string()),
        Just("1e0000000000308".to_string()),
        Just("1e0000000000309".to_string()),
        Just("0e99999999999999999999".to_string()),
        Just("0.000e-99999999999999999999".to_string()),
        Just("1e-99999999999999999999".to_string()),
        Just("1e99999999999999999999".to_string()),
    ];
    let general = (
        any::<bool>(),
        int_part,
        proptest::option::weighted(0.5, digits(1..20)),
        proptest::option::weighted(
            0.4,
            (
                any::<bool>(),
                0u8..3,
                (
                    prop_oneof![4 => Just(0usize), 1 => 1usize..4, 1 => 8usize..14],
                    prop_oneof![digits(1..3), Just("308".to_string()), Just("324".to_string()), Just("400".to_string()), Just("0".to_string()), Just("22".to_string())],
                )
                    .prop_map(|(z, d)| format!("{}{}", "0".repeat(z), d)),
            ),
        ),
    )
        .prop_map(|(neg, i, f, e)| {
            let mut s = String::new();
            if neg {
                s.push('-');
            }
            s.push_str(&i);
            if let Some(f) = f {
                s.push('.');
                s.push_str(&f);
            }
            if let Some((up, sign, d)) = e {
                s.push(if up { 'E' } else { 'e' });
                match sign {
                    1 => s.push('+'),
                    2 => s.push('-'),
                    _ => {}
                }
                s.push_str(&d);
            }
            s
        });
    prop_oneof![2 => edges, 6 => general].boxed()
}

pub fn arb_tdoc(relaxed: bool, depth: u32) -> BoxedStrategy<TDoc> {
    let leaf = prop_oneof![
        1 => Just(TDoc::Null),
        1 => Just(TDoc::True),
        1 => Just(TDoc::False),
        4 => arb_number_text().prop_map(TDoc::Num),
        4 => arb_pieces(relaxed).prop_map(TDoc::Str),
        1 => Just(TDoc::Arr(vec![])),
        1 => Just(TDoc::Obj(vec![])),
    ];
    leaf.prop_recursive(depth, 24, 5, move |inner| {
        prop_oneof![
            vec(inner.clone(), 0..5).prop_map(TDoc::Arr),
            vec((arb_pieces(relaxed), inner.clone()), 0..5).prop_map(TDoc::Obj),
            // duplicate keys spelled differently
            (arb_pieces(relaxed), inner.clone(), inner.clone(), any::<u16>()).prop_map(move |(k, a, b, sel)| {
                let k2 = respell(&k, sel, relaxed);
                TDoc::Obj(vec![(k, a), (k2, b)])
            }),
        ]
    })
    .boxed()
}

/// the same string spelled another way
fn respell(ps: &[Piece], sel: u16, relaxed: bool) -> Vec<Piece> {
    let mut out = vec![];
    for (i, p) in ps.iter().enumerate() {
        match p {
            Piece::Lone { .. } => out.push(p.clone()),
            Piece::Raw(c) | Piece::Short(c) => out.push(spell_char(*c, sel.rotate_left(i as u32 % 16), relaxed)),
            Piece::U4 { c, .. } | Piece::Pair { c, .. } => out.push(spell_char(*c, sel.rotate_left(i as u32 % 16), relaxed)),
        }
    }
    fix_adjacency(&mut out);
    out
}

// ---- spelling a model tree ------------------------------------------------------------

/// shortest decimal digits and exponent of a finite double: value = 0.d1d2.. x 10^exp
fn decimal_parts(f: f64) -> (bool, String, i32) {
    let s = format!("{:e}", f.abs()); // d.ddde[-]x
    let (mant, exp) = s.split_once('e').unwrap();
    let exp: i32 = exp.parse().unwrap();
    let digits: String = mant.chars().filter(|c| *c != '.').collect();
    (f.is_sign_negative(), digits, exp)
}

/// one of several spellings of a finite double; every spelling has a fraction or an
/// exponent, so it reads back as a float
pub fn spell_f64(f: f64, sel: u16) -> String {
    let (neg, digits, exp) = decimal_parts(f);
    let sign = if neg { "-" } else { "" };
    match sel % 6 {
        0 | 1 => {
            let s = format!("{f:?}");
            if s.contains(['.', 'e']) {
                s
            } else {
                format!("{s}.0")
            }
        }
        2 => format!("{sign}{}.{}e{}", &digits[..1], if digits.len() > 1 { &digits[1..] } else { "0" }, exp),
        3 => format!("{sign}{}.{}E{}{}", &digits[..1], if digits.len() > 1 { &digits[1..] } else { "0" }, if exp >= 0 { "+" } else { "" }, exp),
        4 => format!("{sign}{digits}e{}", exp - (digits.len() as i32 - 1)),
        _ => format!("{sign}0.{digits}00e{}", exp + 1),
    }
}

/// spells `m` (finite numbers only) as strict RFC 8259 text. The text denotes
/// `m.unsigned_norm()` (a non-negative Int64 reads back unsigned; -0 as an integer is
/// spelled "-0").
pub fn spell_model(m: &M, sels: &[u16], at: &mut usize, relaxed: bool) -> TDoc {
    fn next(sels: &[u16], at: &mut usize) -> u16 {
        let v = if sels.is_empty() { 0 } else { sels[*at % sels.len()] };
        *at += 1;
        v
    }
    match m {
        M::Null => TDoc::Null,
        M::Bool(true) => TDoc::True,
        M::Bool(false) => TDoc::False,
        // the integer zero may be written -0 (it reads as Int64(0), stored like 0)
        M::Num(N::U(0)) | M::Num(N::I(0)) => TDoc::Num(if next(sels, at) % 4 == 0 { "-0".to_string() } else { "0".to_string() }),
        M::Num(N::U(v)) => TDoc::Num(v.to_string()),
        M::Num(N::I(v)) => TDoc::Num(v.to_string()),
        M::Num(N::F(f)) => {
            assert!(f.is_finite(), "spell_model needs finite numbers");
            TDoc::Num(spell_f64(*f, next(sels, at)))
        }
        M::Str(s) => {
            let sel = [next(sels, at), next(sels, at), next(sels, at)];
            TDoc::Str(spell_string(s, &sel, relaxed))
        }
        M::Arr(a) => TDoc::Arr(a.iter().map(|x| spell_model(x, sels, at, relaxed)).collect()),
        M::Obj(o) => {
            let mut ms: Vec<(Vec<Piece>, TDoc)> = vec![];
            for (k, v) in o {
                let sel = [next(sels, at)];
                ms.push((spell_string(k, &sel, relaxed), spell_model(v, sels, at, relaxed)));
            }
            // member order is free in text
            let r = next(sels, at);
            if !ms.is_empty() {
                let k = pick(r, ms.len());
                ms.rotate_left(k);
                if r & 1 == 1 {
                    ms.reverse();
                }
            }
            TDoc::Obj(ms)
        }
    }
}

/// strict text for a model tree with finite numbers, not starting with whitespace
pub fn model_text(m: &M, sels: &[u16]) -> Vec<u8> {
    let mut at = 0;
    let d = spell_model(m, sels, &mut at, false);
    render(&d, sels, false, false)
}
