//! C13 — array set functions implement multiset semantics over identical elements.

use super::{replay_with, Prop, Sub};
use crate::engine::{nopanic, pick, run_strategy, Ctx, Obs};
use crate::gen::*;
use crate::model::*;
use crate::treefn as t;
use proptest::collection::vec;
use proptest::prelude::*;

pub fn prop() -> Prop {
    Prop {
        id: "C13",
        title: "Array set functions implement multiset semantics over identical elements",
        rule: "pairs of documents built from a small generated pool of element values (so duplicates and overlaps \
               are frequent): arrays with heavy duplication, container elements equal or differing deep inside, \
               the same number in different encodings (different elements here), scalars and objects as \
               non-array inputs, empty arrays. distinct/intersection/except/overlap on the encodings are \
               compared with a list model whose element identity is byte equality of the element's encoding; the \
               partition law, idempotence of distinct and overlap <=> non-empty intersection are also checked on \
               the library's outputs directly. Non-trivial = the first list has a duplicate that also occurs in \
               the second list, or an element that is a container.",
        assumptions: &["treefn.rs list model (from the statement) defines the multiset semantics"],
        subs: vec![Sub { name: "pairs", run, replay: |j| replay_with::<(M, M)>(j, check) }],
    }
}

fn call(what: &str, f: impl FnOnce(&mut Vec<u8>) -> Result<(), jsonb::Error>) -> Result<Vec<u8>, String> {
    let mut buf = Vec::new();
    nopanic(what, || f(&mut buf))?.map_err(|e| format!("{what} failed on valid input: {e:?}"))?;
    Ok(buf)
}

fn expect(what: &str, got: &[u8], want: &M, a: &M, b: &M) -> Result<(), String> {
    let e = want.enc();
    if got != e {
        let shown = validate(got).map(|m| format!("{m:?}")).unwrap_or_else(|e| format!("not canonical: {e}"));
        return Err(format!("{what} = {shown} ({})\n  list model gives {want:?}\n  first  = {a:?}\n  second = {b:?}", hex(got)));
    }
    Ok(())
}

pub fn check(c: &(M, M), obs: &mut Obs) -> Result<(), String> {
    let (a, b) = (&c.0, &c.1);
    let (ea, eb) = (a.enc(), b.enc());
    let d = call("array_distinct", |buf| jsonb::array_distinct(&ea, buf))?;
    expect("array_distinct(first)", &d, &t::array_distinct(a), a, b)?;
    let dd = call("array_distinct", |buf| jsonb::array_distinct(&d, buf))?;
    if dd != d {
        return Err(format!("distinct is not idempotent on {a:?}: {} then {}", hex(&d), hex(&dd)));
    }
    let (wi, we) = t::array_partition(a, b);
    let i = call("array_intersection", |buf| jsonb::array_intersection(&ea, &eb, buf))?;
    let e = call("array_except", |buf| jsonb::array_except(&ea, &eb, buf))?;
    expect("array_intersection(first, second)", &i, &wi, a, b)?;
    expect("array_except(first, second)", &e, &we, a, b)?;
    let ov = nopanic("array_overlap", || jsonb::array_overlap(&ea, &eb))?.map_err(|e| format!("array_overlap failed: {e:?}"))?;
    if ov != t::array_overlap(a, b) {
        return Err(format!("array_overlap = {ov}, list model gives {}\n  first  = {a:?}\n  second = {b:?}", !ov));
    }
    // either list given as JSON text: the list the text denotes (non-negative integers unsigned)
    if a.all_finite() && b.all_finite() && a.size() + b.size() < 3000 {
        let (au, bu) = (a.unsigned_norm(), b.unsigned_norm());
        let sel = [(ea.len() as u16).wrapping_mul(29), 4, 9];
        let (ta, tb) = (crate::textref::model_text(&au, &sel), crate::textref::model_text(&bu, &sel));
        let dt = call("array_distinct(text)", |buf| jsonb::array_distinct(&ta, buf))?;
        expect("array_distinct(text of first)", &dt, &t::array_distinct(&au), &au, b)?;
        for (what, x, y, mx, my) in [("text, binary", &ta, &eb, &au, b), ("binary, text", &ea, &tb, a, &bu), ("text, text", &ta, &tb, &au, &bu)] {
            let (wi, we) = t::array_partition(mx, my);
            let i2 = call("array_intersection", |buf| jsonb::array_intersection(x, y, buf))?;
            let e2 = call("array_except", |buf| jsonb::array_except(x, y, buf))?;
            expect(&format!("array_intersection({what})"), &i2, &wi, mx, my)?;
            expect(&format!("array_except({what})"), &e2, &we, mx, my)?;
            let o2 = nopanic("array_overlap", || jsonb::array_overlap(x, y))?.map_err(|e| format!("array_overlap({what}) failed: {e:?}"))?;
            if o2 != t::array_overlap(mx, my) {
                return Err(format!("array_overlap({what}) = {o2}, list model gives {}\n  first  = {mx:?}\n  second = {my:?}", !o2));
            }
        }
        obs.label("text-form-lists");
    }
    // laws on the library's own outputs
    let (mi, me) = (validate(&i)?, validate(&e)?);
    let (li, le) = match (&mi, &me) {
        (M::Arr(x), M::Arr(y)) => (x.clone(), y.clone()),
        _ => return Err("intersection/except did not return arrays".into()),
    };
    let first = match a {
        M::Arr(x) => x.clone(),
        x => vec![x.clone()],
    };
    // partition law: both results are subsequences of the first list and together they
    // hold exactly its elements
    let ids = |v: &[M]| -> Vec<Vec<u8>> { v.iter().map(|x| x.enc()).collect() };
    let (fi, ii, xi) = (ids(&first), ids(&li), ids(&le));
    let subseq = |small: &[Vec<u8>]| {
        let mut it = fi.iter();
        small.iter().all(|x| it.any(|y| y == x))
    };
    let mut all = ii.clone();
    all.extend(xi.iter().cloned());
    all.sort();
    let mut want_all = fi.clone();
    want_all.sort();
    if !subseq(&ii) || !subseq(&xi) || all != want_all {
        return Err(format!("partition law: intersection {mi:?} and except {me:?} do not partition {a:?}"));
    }
    if ov != !li.is_empty() {
        return Err(format!("overlap = {ov} but intersection = {mi:?}"));
    }
    let dup_in_both = {
        let ids: Vec<Vec<u8>> = first.iter().map(|x| x.enc()).collect();
        let second: Vec<Vec<u8>> = match b {
            M::Arr(x) => x.iter().map(|x| x.enc()).collect(),
            x => vec![x.enc()],
        };
        ids.iter().enumerate().any(|(k, x)| ids[..k].contains(x) && second.contains(x))
    };
    obs.label_if(dup_in_both, "duplicate-also-in-second");
    obs.label_if(first.iter().any(|x| x.is_container()), "container-element");
    obs.label_if(!matches!(a, M::Arr(_)) || !matches!(b, M::Arr(_)), "non-array-input");
    obs.label_if(ov, "overlap");
    obs.nt_if(dup_in_both || first.iter().any(|x| x.is_container()));
    Ok(())
}

/// long lists over a pool of `m` distinct elements: more than 64 / 256 / 65536 distinct
/// elements, early elements repeated late, the two lists in different orders
pub fn big_pair(n1: usize, n2: usize, m: usize, seed: u16, kinds: u8) -> (M, M) {
    let elem = |k: usize| -> M {
        match kinds % 3 {
            0 => M::Num(N::U(k as u64)),
            1 => match k % 4 {
                0 => M::Num(N::U(k as u64)),
                1 => M::Str(format!("s{k}")),
                2 => M::Arr(vec![M::Num(N::I(-(k as i64)))]),
                _ => M::Num(N::F(k as f64)),
            },
            _ => M::Obj([(format!("k{}", k % 7), M::Num(N::U(k as u64)))].into_iter().collect()),
        }
    };
    let s = seed as usize;
    let mut a: Vec<M> = (0..n1).map(|i| elem((i * 7 + s) % m)).collect();
    let mut b: Vec<M> = (0..n2).map(|i| elem((i * 13 + s / 3 + m / 2) % m)).collect();
    if kinds >= 254 && n1 <= 300 && n2 <= 300 {
        // elements whose encoded length needs more than 24 bits, equal in length and different
        // in content, in the middle of each list
        let big = |c: &str| M::Str(c.repeat((1 << 24) + 3));
        a.insert(a.len() / 2, big("x"));
        a.insert(a.len() / 3, big("y"));
        b.insert(b.len() / 2, if seed % 2 == 0 { big("y") } else { big("z") });
    }
    (M::Arr(a), M::Arr(b))
}

pub fn arb_pair_with_big(level: u8) -> BoxedStrategy<(M, M)> {
    let sizes: &'static [usize] = if level >= 2 { &[3, 64, 65, 70, 255, 256, 257, 300, 1000, 4096, 65536, 70000] } else { &[3, 64, 65, 70, 100, 255, 256, 257, 300] };
    let pools: &'static [usize] = &[5, 60, 66, 100, 300, 1000, 70001];
    prop_oneof![
        400 => arb_pair(),
        1 => (0..sizes.len(), 0..sizes.len(), 0..pools.len(), any::<u16>(), any::<u8>())
            .prop_map(move |(i, j, p, seed, kinds)| big_pair(sizes[i], sizes[j], pools[p], seed, kinds)),
    ]
    .boxed()
}

pub fn arb_pair() -> BoxedStrategy<(M, M)> {
    let pool = vec(
        prop_oneof![
            3 => arb_scalar(false),
            2 => arb_tree(TreeParams::small()),
            1 => (arb_num(false), any::<u16>()).prop_map(|(n, k)| M::Num(retype(n, k))),
        ],
        1..6,
    );
    (pool, vec(any::<u16>(), 0..9), vec(any::<u16>(), 0..9), 0u8..12, vec(arb_mutation(), 1..2))
        .prop_map(|(mut pool, ia, ib, mode, muts)| {
            // a deep variant and a re-typed variant of pool members join the pool
            let v = apply_mutations(&pool[0], &muts, MutKind::Any);
            pool.push(v);
            if let Some(M::Num(n)) = pool.iter().find(|x| matches!(x, M::Num(_))).cloned() {
                pool.push(M::Num(retype(n, 0)));
                pool.push(M::Num(retype(n, 1)));
            }
            let la: Vec<M> = ia.iter().map(|i| pool[pick(*i, pool.len())].clone()).collect();
            let lb: Vec<M> = ib.iter().map(|i| pool[pick(*i, pool.len())].clone()).collect();
            match mode {
                0 => (pool[0].clone(), M::Arr(lb)),
                1 => (M::Arr(la), pool[0].clone()),
                2 => (pool[0].clone(), pool[pool.len() - 1].clone()),
                3 => (M::Obj([("k".to_string(), pool[0].clone())].into_iter().collect()), M::Arr(lb)),
                _ => (M::Arr(la), M::Arr(lb)),
            }
        })
        .boxed()
}

fn run(ctx: &mut Ctx) {
    let cases = ctx.share(ctx.tier.pick(600_000, 6_000_000));
    let level = 2;
    run_strategy(ctx, "C13", "pairs", cases, arb_pair_with_big(level), check);
}
