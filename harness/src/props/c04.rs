//! C04 — compare is a total order matching value equality and the documented ranking.

use super::{replay_with, Prop, Sub};
use crate::cmpmodel::*;
use crate::engine::{nopanic, run_strategy, Ctx, Obs};
use crate::gen::*;
use crate::model::*;
use crate::textref::model_text;
use proptest::collection::vec;
use proptest::prelude::*;
use std::cmp::Ordering;

pub fn prop() -> Prop {
    Prop {
        id: "C04",
        title: "compare is a total order matching value equality and the documented ranking",
        rule: "triples (a, b, c): independent trees, and trees derived from one another by 1-3 small mutations \
               at a random depth (changed leaf, length-only difference, long shared prefix, re-typed number \
               1/1.0/Int64(1), -0.0/0, 2^53+-1 in all three representations); every ordered pair is compared \
               through the library with each operand as JSONB and, when its numbers are finite, as generated \
               JSON text, and against the model comparator; reflexivity, antisymmetry, transitivity are checked \
               on the library's own answers. Non-trivial = a pair that is not identical and not decided by the \
               top-level kind (first difference at depth >= 1, or in length only, or between numbers of \
               different representation, or equal documents with different number encodings).",
        assumptions: &["cmpmodel.rs doc_cmp (written from the statement) is the documented order"],
        subs: vec![
            Sub { name: "triples", run, replay: |j| replay_with::<Case>(j, check) },
            // documents nested 10-100 levels deep against small mutations of themselves
            Sub { name: "deep", run: run_deep, replay: |j| replay_with::<Case>(j, check) },
        ],
    }
}

crate::jser_struct! {
    pub struct Case {
        pub a: M,
        pub b: M,
        pub c: M,
        pub sels: Vec<u16>,
    }
}

pub fn arb_triple(p: TreeParams) -> BoxedStrategy<(M, M, M)> {
    let general = (arb_doc(p), arb_doc(p), arb_doc(p), vec(arb_mutation(), 1..4), vec(arb_mutation(), 1..4), 0u8..8);
    // three numeric neighbours of an integer drawn log-uniformly over all magnitudes, in mixed
    // representations (v, v+1, v-1 as integers; v, v+0.5 and the adjacent doubles as floats)
    let neighbours = (0u32..65, any::<u64>(), any::<u16>(), any::<bool>()).prop_map(|(s, bits, k, neg)| {
        let v: u64 = if s == 0 { 0 } else { (1u64 << (s - 1)) | (bits & ((1u64 << (s - 1)) - 1)) };
        let int = |x: u64, alt: bool| -> N {
            if neg {
                if x <= i64::MAX as u64 { N::I(-(x as i64)) } else { N::F(-(x as f64)) }
            } else if alt && x <= i64::MAX as u64 {
                N::I(x as i64)
            } else {
                N::U(x)
            }
        };
        let fl = |f: f64| N::F(if neg { -f } else { f });
        let f = v as f64;
        let mut pool = vec![
            int(v, k & 1 == 0),
            int(v.wrapping_add(1), k & 2 == 0),
            int(v.saturating_sub(1), k & 4 == 0),
            fl(f),
            fl(f64::from_bits(f.to_bits() + 1)),
            fl(if f > 0.0 { f64::from_bits(f.to_bits() - 1) } else { 0.0 }),
        ];
        if v < (1u64 << 52) {
            pool.push(fl(f + 0.5));
            pool.push(fl((f - 0.5).max(0.0)));
        }
        let pickn = |q: u16| M::Num(pool[(q as usize) % pool.len()]);
        let wrap = |m: M| match (k >> 12) % 3 {
            0 => m,
            1 => M::Arr(vec![M::Bool(true), m]),
            _ => M::Obj([("k".to_string(), m)].into_iter().collect()),
        };
        (wrap(pickn(k >> 3)), wrap(pickn(k >> 6)), wrap(pickn(k >> 9)))
    });
    // adjacent children of one container, and a variant of one of them
    let siblings = (arb_doc(p), any::<u16>(), vec(arb_mutation(), 1..3)).prop_map(|(a, sel, muts)| {
        let (x, y) = sibling_pair(&a, sel);
        let z = apply_mutations(&y, &muts, MutKind::Any);
        (x, y, z)
    });
    prop_oneof![
        12 => arb_triple_general(general),
        1 => neighbours,
        1 => siblings,
    ]
    .boxed()
}

type General = (BoxedStrategy<M>, BoxedStrategy<M>, BoxedStrategy<M>, proptest::collection::VecStrategy<BoxedStrategy<Mutation>>, proptest::collection::VecStrategy<BoxedStrategy<Mutation>>, std::ops::Range<u8>);

fn arb_triple_general(g: General) -> BoxedStrategy<(M, M, M)> {
    g
        .prop_map(|(a, ib, ic, m1, m2, mode)| match mode {
            0 => (a, ib, ic),
            1 => {
                let b = apply_mutations(&a, &m1, MutKind::Any);
                (a, b, ic)
            }
            2 | 3 => {
                let b = apply_mutations(&a, &m1, MutKind::Any);
                let c = apply_mutations(&b, &m2, MutKind::Any);
                (a, b, c)
            }
            4 => {
                let b = apply_mutations(&a, &m1, MutKind::Shrinking);
                let c = apply_mutations(&a, &m2, MutKind::Shrinking);
                (a, b, c)
            }
            5 => {
                let b = apply_mutations(&a, &m1, MutKind::Breaking);
                let c = apply_mutations(&a, &m2, MutKind::Breaking);
                (a, b, c)
            }
            6 => {
                // re-typed numbers only: equal documents in different encodings
                let re = |m: &M, k: u16| {
                    fn go(m: &M, k: u16) -> M {
                        match m {
                            M::Num(n) => M::Num(retype(*n, k)),
                            M::Arr(a) => M::Arr(a.iter().map(|x| go(x, k)).collect()),
                            M::Obj(o) => M::Obj(o.iter().map(|(kk, v)| (kk.clone(), go(v, k))).collect()),
                            x => x.clone(),
                        }
                    }
                    go(m, k)
                };
                let b = re(&a, 0);
                let c = re(&a, 1);
                (a, b, c)
            }
            _ => {
                let c = apply_mutations(&a, &m2, MutKind::Any);
                (a.clone(), a, c)
            }
        })
        .boxed()
}

fn lib_cmp(x: &[u8], y: &[u8]) -> Result<Ordering, String> {
    nopanic("compare", || jsonb::compare(x, y))?.map_err(|e| format!("compare returned {e:?} on valid documents"))
}

pub fn nontrivial_pair(a: &M, b: &M) -> bool {
    match first_diff(a, b) {
        Diff::Same => !a.ident_eq(b),
        Diff::Kind { depth } => depth >= 1,
        Diff::Str { depth, .. } => depth >= 1,
        Diff::Num { depth, cross_repr, .. } => depth >= 1 || cross_repr,
        Diff::Len { .. } => true,
    }
}

pub fn check(c: &Case, obs: &mut Obs) -> Result<(), String> {
    let docs = [&c.a, &c.b, &c.c];
    let enc: Vec<Vec<u8>> = docs.iter().map(|d| d.enc()).collect();
    let text: Vec<Option<Vec<u8>>> = docs.iter().map(|d| if d.all_finite() { Some(model_text(d, &c.sels)) } else { None }).collect();
    let mut o = [[Ordering::Equal; 3]; 3];
    let mut nt = false;
    for i in 0..3 {
        for j in 0..3 {
            let want = doc_cmp(docs[i], docs[j]);
            let got = lib_cmp(&enc[i], &enc[j])?;
            o[i][j] = got;
            if got != want {
                return Err(format!("compare(x, y) = {got:?}, documented order gives {want:?}\n  x = {:?}\n  y = {:?}", docs[i], docs[j]));
            }
            if i != j {
                nt |= nontrivial_pair(docs[i], docs[j]);
            }
            // representation pairings
            for (ti, tj) in [(true, false), (false, true), (true, true)] {
                let (x, y) = match (ti, tj, &text[i], &text[j]) {
                    (true, false, Some(t), _) => (t.as_slice(), enc[j].as_slice()),
                    (false, true, _, Some(t)) => (enc[i].as_slice(), t.as_slice()),
                    (true, true, Some(t), Some(u)) => (t.as_slice(), u.as_slice()),
                    _ => continue,
                };
                let g = lib_cmp(x, y)?;
                if g != want {
                    return Err(format!(
                        "compare with text operand(s) (left text: {ti}, right text: {tj}) = {g:?}, all-binary answer and documented order are {want:?}\n  x = {:?} as {:?}\n  y = {:?} as {:?}",
                        docs[i],
                        String::from_utf8_lossy(x),
                        docs[j],
                        String::from_utf8_lossy(y)
                    ));
                }
                obs.label("text-pairing-checked");
            }
        }
    }
    // laws on the implementation's own answers
    for i in 0..3 {
        if o[i][i] != Ordering::Equal {
            return Err(format!("compare(x, x) = {:?} for x = {:?}", o[i][i], docs[i]));
        }
        for j in 0..3 {
            if o[i][j] != o[j][i].reverse() {
                return Err(format!("antisymmetry: compare(x,y) = {:?}, compare(y,x) = {:?}\n  x = {:?}\n  y = {:?}", o[i][j], o[j][i], docs[i], docs[j]));
            }
            for k in 0..3 {
                if o[i][j] != Ordering::Greater && o[j][k] != Ordering::Greater && o[i][k] == Ordering::Greater {
                    return Err(format!("transitivity: x <= y <= z but compare(x, z) = Greater\n  x = {:?}\n  y = {:?}\n  z = {:?}", docs[i], docs[j], docs[k]));
                }
            }
        }
    }
    obs.label_if(has_equal_but_different_numbers(&c.a, &c.b), "equal-with-retyped-number");
    obs.label_if(matches!(first_diff(&c.a, &c.b), Diff::Len { .. }), "length-only-difference");
    obs.label_if(doc_eq(&c.a, &c.b), "equal-pair");
    obs.nt_if(nt);
    Ok(())
}

fn run(ctx: &mut Ctx) {
    let cases = ctx.share(ctx.tier.pick(200_000, 3_000_000));
    let p = ctx.tier.pick(TreeParams::quick(), TreeParams::thorough()).with_big(2);
    let strat = (arb_triple(p), vec(any::<u16>(), 1..5)).prop_map(|((a, b, c), sels)| Case { a, b, c, sels });
    run_strategy(ctx, "C04", "triples", cases, strat, check);
}


fn run_deep(ctx: &mut Ctx) {
    let cases = ctx.share(ctx.tier.pick(20_000, 300_000));
    let strat = (super::c14::arb_deep_pair(), vec(arb_mutation(), 1..3), vec(any::<u16>(), 1..5)).prop_map(|((a, b), m, sels)| {
        let c = apply_mutations(&b, &m, MutKind::Any);
        Case { a, b, c, sels }
    });
    run_strategy(ctx, "C04", "deep", cases, strat, check);
}
