//! C07 — any chain of operations keeps documents canonical and equal to the tree result.

use super::{replay_with, Prop, Sub};
use crate::engine::{nopanic, pick, run_strategy, Ctx, Obs};
use crate::gen::*;
use crate::model::*;
use crate::pathmodel::{derive_path_ast, eval, print, Expect, Style};
use crate::treefn::{self as t, EditErr};
use jsonb::jsonpath::{parse_json_path, Mode, Selector};
use proptest::collection::vec;
use proptest::prelude::*;
use std::collections::BTreeSet;

pub fn prop() -> Prop {
    Prop {
        id: "C07",
        title: "Any chain of operations keeps documents canonical and equal to the tree result",
        rule: "stateful, model-based: a pool of 1-3 generated starting documents and a program of 1-12 (40 \
               thorough) operations; each operation names its inputs by pool index and carries raw choices that \
               are resolved against the CURRENT model (k-th key, position p*len, a path walked into the current \
               document). Operations: every editor of C06, extractors (get_by_index/name/keypath, array_values, \
               object_each, object_keys), set functions of C13, builders over pool members, path selection (All \
               mode split by offsets, Array mode, First mode), re-encoding through from_slice -> to_vec and \
               through to_string -> parse_value -> to_vec. After EVERY step every produced document must be \
               canonical JSONB (strict validator) and byte-equal to the encoding of the model result; documented \
               errors must occur exactly when the model says so and leave the pool unchanged; at the end byte \
               equality of pool members must coincide with model identity. Non-trivial = chain with >= 3 \
               successful steps in which some step consumed the output of an earlier byte-level step that \
               contains a nested container.",
        assumptions: &["treefn.rs / pathmodel.rs tree functions define each step's result; paths with an 'unknown' comparison are skipped and counted"],
        subs: vec![Sub { name: "chains", run, replay: |j| replay_with::<Case>(j, check) }],
    }
}

#[derive(Clone, Debug)]
pub struct Op {
    pub kind: u8,
    pub a: u16,
    pub b: u16,
    pub c: u16,
    pub s: String,
    pub ch: Vec<u16>,
}
impl crate::jser::Jser for Op {
    fn to_j(&self) -> serde_json::Value {
        serde_json::json!({"op": KIND_NAMES[(self.kind % NKINDS) as usize], "kind": self.kind.to_j(), "a": self.a.to_j(), "b": self.b.to_j(), "c": self.c.to_j(), "s": self.s, "ch": self.ch.to_j()})
    }
    fn from_j(j: &serde_json::Value) -> Result<Self, String> {
        Ok(Op {
            kind: u8::from_j(j.get("kind").ok_or("kind")?)?,
            a: u16::from_j(j.get("a").ok_or("a")?)?,
            b: u16::from_j(j.get("b").ok_or("b")?)?,
            c: u16::from_j(j.get("c").ok_or("c")?)?,
            s: String::from_j(j.get("s").ok_or("s")?)?,
            ch: Vec::<u16>::from_j(j.get("ch").ok_or("ch")?)?,
        })
    }
}
crate::jser_struct! {
    pub struct Case {
        pub start: Vec<M>,
        pub ops: Vec<Op>,
    }
}

const NKINDS: u8 = 26;

struct Entry {
    m: M,
    b: Vec<u8>,
    derived: bool,
}

fn map_err(e: &jsonb::Error) -> Option<EditErr> {
    match e {
        jsonb::Error::InvalidJsonType => Some(EditErr::InvalidJsonType),
        jsonb::Error::InvalidObject => Some(EditErr::InvalidObject),
        jsonb::Error::ObjectDuplicateKey => Some(EditErr::ObjectDuplicateKey),
        _ => None,
    }
}

/// judge one produced document
fn produced(what: &str, got: &[u8], want: &M) -> Result<(), String> {
    check_canonical(got).map_err(|e| format!("{what}: result is not canonical JSONB: {e}\n  bytes {}", hex(got)))?;
    let e = want.enc();
    if got != e {
        return Err(format!("{what}: result {} ({:?})\n  differs from the tree result {want:?} = {}", hex(got), validate(got), hex(&e)));
    }
    // the library's own round trip
    let again = nopanic("from_slice+to_vec", || jsonb::from_slice(got).map(|v| v.to_vec()))?.map_err(|e| format!("{what}: from_slice rejects the result: {e:?}"))?;
    if again != got {
        return Err(format!("{what}: from_slice(result).to_vec() differs from the result bytes"));
    }
    Ok(())
}

pub fn check(c: &Case, obs: &mut Obs) -> Result<(), String> {
    let mut pool: Vec<Entry> = c.start.iter().map(|m| Entry { m: m.norm(), b: m.enc(), derived: false }).collect();
    if pool.is_empty() {
        return Ok(());
    }
    let mut ok_steps = 0;
    let mut fed_derived_nested = false;
    // half of the chains append every path selection to one pair of buffers, as a caller
    // collecting results does
    let shared_buffers = c.ops.first().map(|o| o.c % 2 == 1).unwrap_or(false);
    let (mut sd, mut so): (Vec<u8>, Vec<u64>) = (Vec::new(), Vec::new());
    for (step, op) in c.ops.iter().enumerate() {
        let n = pool.len();
        let i = pick(op.a, n);
        let j = pick(op.b, n);
        let (mi, bi) = (pool[i].m.clone(), pool[i].b.clone());
        let (mj, bj) = (pool[j].m.clone(), pool[j].b.clone());
        let kind = op.kind % NKINDS;
        let tag = format!("step {step} op {kind} on pool[{i}]");
        let uses_second = matches!(kind, 0 | 4 | 5 | 18 | 19);
        let nested = |m: &M| m.depth() >= 2;
        let feeds = (pool[i].derived && nested(&mi)) || (uses_second && pool[j].derived && nested(&mj));
        // arguments resolved against the current model
        let len = match &mi {
            M::Arr(a) => a.len(),
            _ => 1,
        };
        let pos = derive_index(len, op.c) as i32;
        let mut names = top_keys(&mi);
        if let M::Arr(a) = &mi {
            names.extend(a.iter().filter_map(|x| if let M::Str(s) = x { Some(s.clone()) } else { None }));
        }
        let name = derive_name(&names, op.c, op.b, &op.s);
        let steps: Vec<(u16, u16, u16)> = op.ch.chunks(3).filter(|c| c.len() == 3).map(|c| (c[0], c[1], c[2])).take(4).collect();
        let kpath = derive_path(&mi, &steps, &op.s);
        let lkp: Vec<_> = kpath.iter().map(|k| k.to_lib()).collect();
        let keys: Vec<String> = op.ch.iter().take(3).map(|x| derive_name(&top_keys(&mi), *x, x >> 3, &op.s)).collect();
        let keyset: BTreeSet<&str> = keys.iter().map(|s| s.as_str()).collect();

        // results: list of (bytes, model)
        let mut outs: Vec<(Vec<u8>, M)> = vec![];
        let mut edit = |what: String, want: Result<M, EditErr>, r: Result<(), jsonb::Error>, buf: Vec<u8>| -> Result<Option<(Vec<u8>, M)>, String> {
            match (r, want) {
                (Ok(()), Ok(w)) => Ok(Some((buf, w))),
                (Err(e), Err(w)) => {
                    if map_err(&e).as_ref() != Some(&w) {
                        return Err(format!("{tag} {what}: returned {e:?}, documented error is {w:?}"));
                    }
                    if !buf.is_empty() {
                        return Err(format!("{tag} {what}: returned {e:?} but wrote {}", hex(&buf)));
                    }
                    Ok(None)
                }
                (Ok(()), Err(w)) => Err(format!("{tag} {what}: succeeded, documented result is the error {w:?}; input {mi:?}")),
                (Err(e), Ok(w)) => Err(format!("{tag} {what}: returned {e:?}, but the tree result is {w:?}; input {mi:?}")),
            }
        };
        let mut buf = Vec::new();
        let res: Option<(Vec<u8>, M)> = match kind {
            0 => {
                let r = nopanic("concat", || jsonb::concat(&bi, &bj, &mut buf))?;
                edit(format!("concat(_, pool[{j}])"), Ok(t::concat(&mi, &mj)), r, buf)?
            }
            1 => {
                let r = nopanic("delete_by_name", || jsonb::delete_by_name(&bi, &name, &mut buf))?;
                edit(format!("delete_by_name({name:?})"), t::delete_by_name(&mi, &name), r, buf)?
            }
            2 => {
                let r = nopanic("delete_by_index", || jsonb::delete_by_index(&bi, pos, &mut buf))?;
                edit(format!("delete_by_index({pos})"), t::delete_by_index(&mi, pos), r, buf)?
            }
            3 => {
                let r = nopanic("delete_by_keypath", || jsonb::delete_by_keypath(&bi, lkp.iter(), &mut buf))?;
                edit(format!("delete_by_keypath({kpath:?})"), t::delete_by_keypath(&mi, &kpath), r, buf)?
            }
            4 => {
                let r = nopanic("array_insert", || jsonb::array_insert(&bi, pos, &bj, &mut buf))?;
                edit(format!("array_insert({pos}, pool[{j}])"), Ok(t::array_insert(&mi, pos, &mj)), r, buf)?
            }
            5 => {
                let upd = op.c % 2 == 0;
                let r = nopanic("object_insert", || jsonb::object_insert(&bi, &name, &bj, upd, &mut buf))?;
                edit(format!("object_insert({name:?}, pool[{j}], {upd})"), t::object_insert(&mi, &name, &mj, upd), r, buf)?
            }
            6 => {
                let r = nopanic("object_delete", || jsonb::object_delete(&bi, &keyset, &mut buf))?;
                edit(format!("object_delete({keys:?})"), t::object_delete(&mi, &keys), r, buf)?
            }
            7 => {
                let r = nopanic("object_pick", || jsonb::object_pick(&bi, &keyset, &mut buf))?;
                edit(format!("object_pick({keys:?})"), t::object_pick(&mi, &keys), r, buf)?
            }
            8 => {
                let r = nopanic("strip_nulls", || jsonb::strip_nulls(&bi, &mut buf))?;
                edit("strip_nulls".into(), Ok(t::strip_nulls(&mi)), r, buf)?
            }
            9 => {
                let parts: Vec<usize> = op.ch.iter().take(4).map(|x| pick(*x, n)).collect();
                let r = nopanic("build_array", || jsonb::build_array(parts.iter().map(|k| pool[*k].b.as_slice()), &mut buf))?;
                edit(format!("build_array(pool{parts:?})"), Ok(M::Arr(parts.iter().map(|k| pool[*k].m.clone()).collect())), r, buf)?
            }
            10 => {
                let mut seen = BTreeSet::new();
                // usually up to four pairs; sometimes 40 unsorted pairs over at most 28 keys
                let many = op.c % 8 == 4 && !op.ch.is_empty();
                let src: Vec<u16> = if many { (0..40usize).map(|q| op.ch[q % op.ch.len()].wrapping_add((q as u16).wrapping_mul(7919))).collect() } else { op.ch.iter().take(4).copied().collect() };
                let parts: Vec<(String, usize)> = src
                    .iter()
                    .enumerate()
                    .map(|(q, x)| {
                        let tail = if many { format!("{}", x % 7) } else if q % 2 == 0 { op.s.clone() } else { String::new() };
                        (format!("{}{}", ["k", "a", "é", ""][pick(*x, 4)], tail), pick(*x >> 2, n))
                    })
                    .filter(|(k, _)| seen.insert(k.clone()) || op.c % 4 == 0)
                    .collect();
                obs.label_if(many, "build_object-40-pairs-with-repeats");
                let r = nopanic("build_object", || jsonb::build_object(parts.iter().map(|(k, q)| (k.as_str(), pool[*q].b.as_slice())), &mut buf))?;
                edit(format!("build_object({parts:?})"), Ok(M::Obj(parts.iter().map(|(k, q)| (k.clone(), pool[*q].m.clone())).collect())), r, buf)?
            }
            11 => {
                let idx = pos.max(0) as usize;
                let g = nopanic("get_by_index", || jsonb::get_by_index(&bi, idx))?;
                match (g, t::get_by_index(&mi, idx)) {
                    (Some(g), Some(w)) => Some((g, w)),
                    (None, None) => None,
                    (g, w) => return Err(format!("{tag} get_by_index({idx}) = {:?}, tree says {w:?}", g.map(|b| hex(&b)))),
                }
            }
            12 => {
                let ic = op.c % 2 == 1;
                let g = nopanic("get_by_name", || jsonb::get_by_name(&bi, &name, ic))?;
                match (g, t::get_by_name(&mi, &name, ic)) {
                    (Some(g), Some(w)) => Some((g, w)),
                    (None, None) => None,
                    (g, w) => return Err(format!("{tag} get_by_name({name:?},{ic}) = {:?}, tree says {w:?}", g.map(|b| hex(&b)))),
                }
            }
            13 => {
                let g = nopanic("get_by_keypath", || jsonb::get_by_keypath(&bi, lkp.iter()))?;
                match (g, t::get_by_keypath(&mi, &kpath)) {
                    (Some(g), Some(w)) => Some((g, w)),
                    (None, None) => None,
                    (g, w) => return Err(format!("{tag} get_by_keypath({kpath:?}) = {:?}, tree says {w:?}", g.map(|b| hex(&b)))),
                }
            }
            14 => {
                let g = nopanic("array_values", || jsonb::array_values(&bi))?;
                match (g, t::array_values(&mi)) {
                    (Some(g), Some(w)) if g.len() == w.len() => {
                        outs.extend(g.into_iter().zip(w));
                        None
                    }
                    (None, None) => None,
                    (g, w) => return Err(format!("{tag} array_values = {:?} items, tree says {:?}", g.map(|x| x.len()), w.map(|x| x.len()))),
                }
            }
            15 => {
                let g = nopanic("object_each", || jsonb::object_each(&bi))?;
                match (g, t::object_each(&mi)) {
                    (Some(g), Some(w)) if g.len() == w.len() => {
                        for ((gk, gv), (wk, wv)) in g.into_iter().zip(w) {
                            if gk != wk.as_bytes() {
                                return Err(format!("{tag} object_each key {:?}, tree has {wk:?}", String::from_utf8_lossy(&gk)));
                            }
                            outs.push((gv, wv));
                        }
                        None
                    }
                    (None, None) => None,
                    (g, w) => return Err(format!("{tag} object_each = {:?} pairs, tree says {:?}", g.map(|x| x.len()), w.map(|x| x.len()))),
                }
            }
            16 => {
                let g = nopanic("object_keys", || jsonb::object_keys(&bi))?;
                match (g, t::object_keys(&mi)) {
                    (Some(g), Some(w)) => Some((g, w)),
                    (None, None) => None,
                    (g, w) => return Err(format!("{tag} object_keys = {:?}, tree says {w:?}", g.map(|b| hex(&b)))),
                }
            }
            17 => {
                let r = nopanic("array_distinct", || jsonb::array_distinct(&bi, &mut buf))?;
                edit("array_distinct".into(), Ok(t::array_distinct(&mi)), r, buf)?
            }
            18 | 19 if op.c % 5 == 0 && mj.all_finite() => {
                // the second list given as JSON text (the functions accept either form): it then
                // is the document the text denotes, non-negative integers unsigned
                let mjt = mj.unsigned_norm();
                let tj = crate::textref::model_text(&mjt, &op.ch);
                let (what, r, want) = if kind == 18 {
                    ("array_intersection", nopanic("array_intersection", || jsonb::array_intersection(&bi, &tj, &mut buf))?, t::array_partition(&mi, &mjt).0)
                } else {
                    ("array_except", nopanic("array_except", || jsonb::array_except(&bi, &tj, &mut buf))?, t::array_partition(&mi, &mjt).1)
                };
                obs.label("second-argument-as-text");
                edit(format!("{what}(_, text of pool[{j}] {:?})", String::from_utf8_lossy(&tj)), Ok(want), r, buf)?
            }
            18 => {
                let r = nopanic("array_intersection", || jsonb::array_intersection(&bi, &bj, &mut buf))?;
                edit(format!("array_intersection(_, pool[{j}])"), Ok(t::array_partition(&mi, &mj).0), r, buf)?
            }
            19 => {
                let r = nopanic("array_except", || jsonb::array_except(&bi, &bj, &mut buf))?;
                edit(format!("array_except(_, pool[{j}])"), Ok(t::array_partition(&mi, &mj).1), r, buf)?
            }
            20 | 21 | 22 => {
                // path selection on the current document
                let ast = derive_path_ast(&mi, &op.ch);
                let text = print(&ast, &mut Style::new(&op.ch, op.c % 2 == 0));
                let parsed = nopanic("parse_json_path", || parse_json_path(text.as_bytes()).is_ok())?;
                if !parsed {
                    obs.label("path-rejected-by-parser");
                    None
                } else {
                    match eval(&mi, &ast) {
                        Ok(Expect::Items(items)) if items.iter().all(|x| x.sure) && mi.all_finite() => {
                            let want: Vec<M> = items.iter().map(|x| x.v.clone()).collect();
                            let mode = [Mode::All, Mode::Array, Mode::First][(kind - 20) as usize].clone();
                            let (before_d, before_o) = (sd.clone(), so.clone());
                            nopanic("Selector::select", || Selector::new(parse_json_path(text.as_bytes()).unwrap(), mode.clone()).select(&bi, &mut sd, &mut so))?
                                .map_err(|e| format!("{tag} select({text:?}) failed: {e:?}"))?;
                            if !sd.starts_with(&before_d) || !so.starts_with(&before_o) {
                                return Err(format!("{tag} select({text:?}) changed results stored earlier in the same buffers: {} became {}", hex(&before_d), hex(&sd[..before_d.len().min(sd.len())])));
                            }
                            let d: Vec<u8> = sd[before_d.len()..].to_vec();
                            let mut o: Vec<u64> = vec![];
                            for x in &so[before_o.len()..] {
                                match x.checked_sub(before_d.len() as u64) {
                                    Some(v) => o.push(v),
                                    None => return Err(format!("{tag} select({text:?}) appended offset {x} to buffers already holding {} bytes", before_d.len())),
                                }
                            }
                            if !shared_buffers {
                                sd.clear();
                                so.clear();
                            }
                            obs.label_if(!before_d.is_empty(), "selection-appended-to-earlier-results");
                            match mode {
                                Mode::All => {
                                    let got = super::c08::split_items(&d, &o).map_err(|e| format!("{tag} select({text:?}): {e}"))?;
                                    if got.len() != want.len() {
                                        return Err(format!("{tag} select({text:?}) returned {} items, the path denotes {want:?}; document {mi:?}", got.len()));
                                    }
                                    outs.extend(got.into_iter().zip(want));
                                    None
                                }
                                Mode::Array => Some((d, M::Arr(want))),
                                _ => match want.first() {
                                    Some(w) => Some((d, w.clone())),
                                    None => {
                                        if !d.is_empty() {
                                            return Err(format!("{tag} select First({text:?}) wrote {} for an empty result", hex(&d)));
                                        }
                                        None
                                    }
                                },
                            }
                        }
                        _ => {
                            obs.label("path-op-skipped(predicate/unknown/non-finite)");
                            None
                        }
                    }
                }
            }
            25 => {
                // a failing call in the middle of the chain (an invalid part): it must fail cleanly
                // and leave no trace in what later calls produce
                let garbage: &[u8] = [&[0x00u8, 0, 0, 0][..], &[0x60, 0, 0, 1, 0, 0], &[0xE0, 0, 0, 0, 1]][op.c as usize % 3];
                let mut sink = Vec::new();
                let r1 = nopanic("build_array with an invalid part", || jsonb::build_array([bi.as_slice(), garbage], &mut sink))?;
                let r2 = nopanic("build_object with an invalid part", || jsonb::build_object([("k", bj.as_slice()), ("z", garbage)], &mut sink))?;
                if r1.is_ok() || r2.is_ok() {
                    return Err(format!("{tag}: building from a part with an invalid header succeeded"));
                }
                None
            }
            23 => {
                let r = nopanic("from_slice+to_vec", || jsonb::from_slice(&bi).map(|v| v.to_vec()))?
                    .map_err(|e| format!("{tag} from_slice rejects a pool document: {e:?}"))?;
                Some((r, mi.clone()))
            }
            _ => {
                if mi.all_finite() {
                    let s = nopanic("to_string", || jsonb::to_string(&bi))?;
                    let r = nopanic("parse_value+to_vec", || jsonb::parse_value(s.as_bytes()).map(|v| v.to_vec()))?
                        .map_err(|e| format!("{tag} parse_value rejects to_string's output {s:?}: {e:?}"))?;
                    Some((r, mi.unsigned_norm()))
                } else {
                    None
                }
            }
        };
        if let Some(x) = res {
            outs.push(x);
        }
        if !outs.is_empty() {
            ok_steps += 1;
            fed_derived_nested |= feeds;
        }
        for (k, (b, m)) in outs.into_iter().enumerate() {
            let m = m.norm();
            produced(&format!("{tag} (result {k}; input {mi:?})"), &b, &m)?;
            if pool.len() < 10 {
                pool.push(Entry { m, b, derived: true });
            } else {
                let slot = pick(op.c.wrapping_add((k as u16).wrapping_mul(7919)), pool.len());
                pool[slot] = Entry { m, b, derived: true };
            }
        }
        obs.label(KIND_NAMES[kind as usize]);
    }
    // byte equality <=> model identity
    for x in 0..pool.len() {
        for y in 0..pool.len() {
            let beq = pool[x].b == pool[y].b;
            let meq = pool[x].m.ident_eq(&pool[y].m);
            if beq != meq {
                return Err(format!("pool members {x} and {y}: byte equality {beq} but value identity {meq}\n  {:?}\n  {:?}", pool[x].m, pool[y].m));
            }
        }
    }
    obs.nt_if(ok_steps >= 3 && fed_derived_nested);
    obs.label_if(fed_derived_nested, "fed-derived-nested");
    Ok(())
}

const KIND_NAMES: [&str; NKINDS as usize] = [
    "op-concat", "op-delete_by_name", "op-delete_by_index", "op-delete_by_keypath", "op-array_insert", "op-object_insert", "op-object_delete",
    "op-object_pick", "op-strip_nulls", "op-build_array", "op-build_object", "op-get_by_index", "op-get_by_name", "op-get_by_keypath",
    "op-array_values", "op-object_each", "op-object_keys", "op-array_distinct", "op-array_intersection", "op-array_except", "op-select-all",
    "op-select-array", "op-select-first", "op-reencode", "op-text-roundtrip", "op-failing-call",
];

pub fn arb_case(p: TreeParams, maxops: usize) -> BoxedStrategy<Case> {
    let op = (0u8..NKINDS, any::<u16>(), any::<u16>(), any::<u16>(), arb_string(), vec(any::<u16>(), 6..24))
        .prop_map(|(kind, a, b, c, s, ch)| Op { kind, a, b, c, s, ch });
    (vec(arb_doc(p), 1..4), vec(op, 1..=maxops)).prop_map(|(start, ops)| Case { start, ops }).boxed()
}

fn run(ctx: &mut Ctx) {
    let cases = ctx.share(ctx.tier.pick(200_000, 1_000_000));
    let p = ctx.tier.pick(TreeParams::small(), TreeParams::quick()).with_big(1);
    let maxops = ctx.tier.pick(12, 40);
    run_strategy(ctx, "C07", "chains", cases, arb_case(p, maxops), check);
}
