//! C05 — read-only accessors on JSONB bytes agree with the document they encode.

use super::{replay_with, Prop, Sub};
use crate::engine::{nopanic, pick, run_strategy, Ctx, Obs};
use crate::gen::*;
use crate::jser::Bytes;
use crate::model::*;
use crate::treefn::{self as t, KP};
use proptest::collection::vec;
use proptest::prelude::*;

pub fn prop() -> Prop {
    Prop {
        id: "C05",
        title: "Read-only accessors on JSONB bytes agree with the document they encode",
        rule: "(document, argument bundle): proptest-generated tree plus an index (-len-2..len+2 and usize \
               extremes), a name (existing key, ASCII-case variant, prefix, extension, random), a key path \
               obtained by a random walk into the document (negative indices, mismatching kinds, steps past \
               scalars), key lists incl. non-UTF-8 byte strings, and a string predicate; every accessor on \
               enc(tree) is compared with a ten-line tree function, every returned sub-value with \
               enc(sub-tree). Non-trivial = some accessor call is a hit on a target that is preceded by at \
               least one sibling with a non-empty payload. Distinct = distinct canonical serialisation of \
               the whole case.",
        assumptions: &["tree functions in treefn.rs are the meaning of each accessor (from the statement and doc comments)"],
        subs: vec![Sub { name: "accessors", run, replay: |j| replay_with::<Case>(j, check) }],
    }
}

crate::jser_struct! {
    pub struct Case {
        pub doc: M,
        pub index: u64,
        pub name: String,
        pub path: Vec<KP>,
        pub keys: Vec<Bytes>,
        pub pred_kind: u8,
        pub pred_arg: String,
    }
}

pub fn arb_case(p: TreeParams) -> BoxedStrategy<Case> {
    (
        arb_doc(p),
        any::<u16>(),
        (any::<u16>(), any::<u16>(), arb_string()),
        (vec((any::<u16>(), any::<u16>(), any::<u16>()), 0..6), arb_string()),
        vec((any::<u16>(), any::<u16>(), arb_string(), any::<bool>()), 0..4),
        (0u8..3, any::<u16>(), arb_string()),
    )
        .prop_map(|(doc, isel, (nsel, nmode, nextra), (steps, pextra), keysel, (pk, psel, pextra2))| {
            let len = t::array_length(&doc).unwrap_or(3);
            let index = match isel % 16 {
                14 => i32::MAX as u64 + 1,
                15 => u64::MAX,
                _ => derive_index(len, isel).max(0) as u64,
            };
            let tk = top_keys(&doc);
            let name = derive_name(&tk, nsel, nmode, &nextra);
            let path = derive_path(&doc, &steps, &pextra);
            let strs: Vec<String> = {
                let mut s = tk.clone();
                if let M::Arr(a) = &doc {
                    s.extend(a.iter().filter_map(|x| if let M::Str(s) = x { Some(s.clone()) } else { None }));
                }
                s
            };
            let keys = keysel
                .into_iter()
                .map(|(s, m, e, bad)| {
                    if bad && m % 5 == 0 {
                        // an ill-formed probe; when a key or element holds U+FFFD, the probe is that
                        // string with the replacement character turned back into a stray byte
                        match strs.iter().find(|x| x.contains('\u{fffd}')) {
                            Some(x) => Bytes(x.replace('\u{fffd}', "\u{0}").into_bytes().into_iter().map(|b| if b == 0 { 0xFF } else { b }).collect()),
                            None => Bytes(vec![0xff, 0xfe, b'a']),
                        }
                    } else {
                        Bytes(derive_name(&strs, s, m, &e).into_bytes())
                    }
                })
                .collect();
            let all = all_strings(&doc);
            let pred_arg = if !all.is_empty() && psel % 3 != 0 { all[pick(psel, all.len())].clone() } else { pextra2 };
            Case { doc, index, name, path, keys, pred_kind: pk, pred_arg }
        })
        .boxed()
}

fn pred(kind: u8, arg: &str) -> impl Fn(&[u8]) -> bool + '_ {
    move |b: &[u8]| match kind {
        0 => b == arg.as_bytes(),
        1 => arg.as_bytes().first().map(|c| b.contains(c)).unwrap_or(b.is_empty()),
        _ => b.len() > arg.len(),
    }
}

fn sub_eq(what: &str, got: Option<Vec<u8>>, want: Option<M>) -> Result<bool, String> {
    match (got, want) {
        (None, None) => Ok(false),
        (Some(g), Some(w)) => {
            let e = w.enc();
            if g != e {
                return Err(format!("{what}: returned {} but the sub-document encodes as {} ({w:?})", hex(&g), hex(&e)));
            }
            Ok(true)
        }
        (g, w) => Err(format!("{what}: returned {:?}, tree says {w:?}", g.map(|b| hex(&b)))),
    }
}

/// is child `i` of a container preceded by a sibling with a non-empty payload?
fn preceded_by_payload(m: &M, hit: &dyn Fn(usize) -> bool) -> bool {
    let kids: Vec<&M> = match m {
        M::Arr(a) => a.iter().collect(),
        M::Obj(o) => o.values().collect(),
        _ => return false,
    };
    let mut seen_payload = false;
    for (i, k) in kids.iter().enumerate() {
        if hit(i) && seen_payload {
            return true;
        }
        if !matches!(k, M::Null | M::Bool(_)) && !matches!(k, M::Str(s) if s.is_empty()) {
            seen_payload = true;
        }
    }
    false
}

pub fn check(c: &Case, obs: &mut Obs) -> Result<(), String> {
    let m = &c.doc;
    let nm = m.norm();
    let b = m.enc();
    let mut nt = false;

    // array_length / LazyValue
    let al = nopanic("array_length", || jsonb::array_length(&b))?;
    if al != t::array_length(m) {
        return Err(format!("array_length = {al:?}, tree says {:?}", t::array_length(m)));
    }
    let lazy = nopanic("parse_lazy_value", || jsonb::parse_lazy_value(&b))?.map_err(|e| format!("parse_lazy_value failed: {e:?}"))?;
    if nopanic("LazyValue::array_length", || lazy.array_length())? != t::array_length(m) {
        return Err("LazyValue::array_length disagrees with the tree".into());
    }
    if nopanic("LazyValue::to_vec", || lazy.to_vec())? != b {
        return Err("LazyValue::to_vec of raw bytes is not the bytes".into());
    }
    let lv = nopanic("LazyValue::to_value", || from_value(&lazy.to_value()))?;
    if !lv.ident_eq(&nm) {
        return Err(format!("LazyValue::to_value = {lv:?}"));
    }

    // "the same question on the decoded tree": the library's own tree accessors on the
    // decoded value must give what the byte-level ones give (both are compared with the model)
    {
        let v = nopanic("from_slice", || jsonb::from_slice(&b))?.map_err(|e| format!("from_slice failed on a valid document: {e:?}"))?;
        if nopanic("Value::array_length", || v.array_length())? != t::array_length(m) {
            return Err(format!("Value::array_length = {:?}, tree says {:?}", v.array_length(), t::array_length(m)));
        }
        let vk = nopanic("Value::object_keys", || v.object_keys().map(|k| from_value(&k)))?;
        let wk = t::object_keys(m);
        if !(match (&vk, &wk) {
            (Some(x), Some(y)) => x.ident_eq(y),
            (None, None) => true,
            _ => false,
        }) {
            return Err(format!("Value::object_keys = {vk:?}, tree says {:?}", t::object_keys(m)));
        }
        let vn = nopanic("Value::get_by_name_ignore_case", || v.get_by_name_ignore_case(&c.name).map(from_value))?;
        let want = t::get_by_name(m, &c.name, true).map(|x| x.norm());
        if !(match (&vn, &want) {
            (Some(x), Some(y)) => x.ident_eq(y),
            (None, None) => true,
            _ => false,
        }) {
            return Err(format!("Value::get_by_name_ignore_case({:?}) = {vn:?}, tree says {want:?}", c.name));
        }
        // kind predicates of the decoded value
        let kinds = (v.is_null(), v.is_boolean(), v.is_number(), v.is_string(), v.is_array(), v.is_object(), v.is_scalar());
        let wantk = (
            matches!(m, M::Null),
            matches!(m, M::Bool(_)),
            matches!(m, M::Num(_)),
            matches!(m, M::Str(_)),
            matches!(m, M::Arr(_)),
            matches!(m, M::Obj(_)),
            m.is_scalar(),
        );
        if kinds != wantk {
            return Err(format!("Value::is_* = {kinds:?} for a {}", m.kind()));
        }
    }

    // get_by_index
    let idx = c.index as usize;
    let hit = sub_eq(&format!("get_by_index({idx})"), nopanic("get_by_index", || jsonb::get_by_index(&b, idx))?, t::get_by_index(m, idx))?;
    obs.label(if hit { "get_by_index-hit" } else { "get_by_index-miss" });
    nt |= hit && preceded_by_payload(m, &|i| i == idx);

    // get_by_name, both modes
    for ic in [false, true] {
        let want = t::get_by_name(m, &c.name, ic);
        let hit = sub_eq(
            &format!("get_by_name({:?}, ignore_case={ic})", c.name),
            nopanic("get_by_name", || jsonb::get_by_name(&b, &c.name, ic))?,
            want,
        )?;
        obs.label(match (ic, hit) {
            (false, true) => "get_by_name-hit",
            (false, false) => "get_by_name-miss",
            (true, true) => "get_by_name_ic-hit",
            (true, false) => "get_by_name_ic-miss",
        });
        if ic && hit && t::get_by_name(m, &c.name, false).is_none() {
            obs.label("get_by_name_ic-hit-by-case-only");
            nt = true;
        }
        if hit {
            if let M::Obj(o) = m {
                let pos = o.keys().position(|k| if ic { k.eq_ignore_ascii_case(&c.name) } else { *k == c.name });
                nt |= preceded_by_payload(m, &|i| Some(i) == pos);
            }
        }
    }

    // get_by_keypath
    let lp: Vec<_> = c.path.iter().map(|k| k.to_lib()).collect();
    let want = t::get_by_keypath(m, &c.path);
    let deep_hit = want.is_some() && c.path.len() >= 2;
    let hit = sub_eq(&format!("get_by_keypath({:?})", c.path), nopanic("get_by_keypath", || jsonb::get_by_keypath(&b, lp.iter()))?, want)?;
    obs.label(if hit { "get_by_keypath-hit" } else { "get_by_keypath-miss" });
    obs.label_if(deep_hit, "get_by_keypath-hit-depth>=2");
    nt |= deep_hit;

    // object_keys / object_each / array_values
    sub_eq("object_keys", nopanic("object_keys", || jsonb::object_keys(&b))?, t::object_keys(m))?;
    let oe = nopanic("object_each", || jsonb::object_each(&b))?;
    match (oe, t::object_each(m)) {
        (None, None) => {}
        (Some(g), Some(w)) => {
            if g.len() != w.len() {
                return Err(format!("object_each returned {} pairs, object has {}", g.len(), w.len()));
            }
            for ((gk, gv), (wk, wv)) in g.iter().zip(w.iter()) {
                if gk != wk.as_bytes() || *gv != wv.enc() {
                    return Err(format!("object_each pair ({:?}, {}) but tree has ({wk:?}, {})", String::from_utf8_lossy(gk), hex(gv), hex(&wv.enc())));
                }
            }
            nt |= w.len() >= 2 && w.iter().any(|(_, v)| v.is_container());
        }
        (g, w) => return Err(format!("object_each = {:?}, tree says {:?}", g.map(|x| x.len()), w.map(|x| x.len()))),
    }
    let av = nopanic("array_values", || jsonb::array_values(&b))?;
    match (av, t::array_values(m)) {
        (None, None) => {}
        (Some(g), Some(w)) => {
            if g.len() != w.len() {
                return Err(format!("array_values returned {} items, array has {}", g.len(), w.len()));
            }
            for (i, (gv, wv)) in g.iter().zip(w.iter()).enumerate() {
                if *gv != wv.enc() {
                    return Err(format!("array_values[{i}] = {} but element encodes as {}", hex(gv), hex(&wv.enc())));
                }
            }
            nt |= w.len() >= 2 && w.iter().any(|v| v.is_container());
        }
        (g, w) => return Err(format!("array_values = {:?}, tree says {:?}", g.map(|x| x.len()), w.map(|x| x.len()))),
    }

    // type_of and the is_/as_ casts
    let ty = nopanic("type_of", || jsonb::type_of(&b))?.map_err(|e| format!("type_of failed: {e:?}"))?;
    if ty != m.kind() {
        return Err(format!("type_of = {ty}, tree is {}", m.kind()));
    }
    let flags = nopanic("is_*", || {
        (
            jsonb::is_null(&b),
            jsonb::is_boolean(&b),
            jsonb::is_number(&b),
            jsonb::is_string(&b),
            jsonb::is_array(&b),
            jsonb::is_object(&b),
        )
    })?;
    let want_flags = (
        matches!(m, M::Null),
        matches!(m, M::Bool(_)),
        matches!(m, M::Num(_)),
        matches!(m, M::Str(_)),
        matches!(m, M::Arr(_)),
        matches!(m, M::Obj(_)),
    );
    if flags != want_flags {
        return Err(format!("is_null/boolean/number/string/array/object = {flags:?}, tree is {}", m.kind()));
    }
    if nopanic("as_null", || jsonb::as_null(&b))?.is_some() != matches!(m, M::Null) {
        return Err("as_null disagrees".into());
    }
    let ab = nopanic("as_bool", || jsonb::as_bool(&b))?;
    if ab != (if let M::Bool(x) = m { Some(*x) } else { None }) {
        return Err(format!("as_bool = {ab:?}"));
    }
    let an = nopanic("as_number", || jsonb::as_number(&b))?.map(|n| N::from_lib(&n));
    match (&an, t::as_num(m)) {
        (None, None) => {}
        (Some(g), Some(w)) if g.ident_eq(&w) => {}
        (g, w) => return Err(format!("as_number = {g:?}, tree has {w:?}")),
    }
    let (gi, gu, gf) = nopanic("as_i64/u64/f64", || (jsonb::as_i64(&b), jsonb::as_u64(&b), jsonb::as_f64(&b)))?;
    if gi != t::as_i64(m) || nopanic("is_i64", || jsonb::is_i64(&b))? != gi.is_some() {
        return Err(format!("as_i64 = {gi:?}, tree says {:?}", t::as_i64(m)));
    }
    if gu != t::as_u64(m) || nopanic("is_u64", || jsonb::is_u64(&b))? != gu.is_some() {
        return Err(format!("as_u64 = {gu:?}, tree says {:?}", t::as_u64(m)));
    }
    match (gf, t::as_num(m)) {
        (None, None) => {}
        (Some(f), Some(N::F(w))) if N::F(f).ident_eq(&N::F(w)) => {}
        (Some(f), Some(N::I(w))) if crate::cmpmodel::is_nearest_double(w as i128, f) => {}
        (Some(f), Some(N::U(w))) if crate::cmpmodel::is_nearest_double(w as i128, f) => {}
        (g, w) => return Err(format!("as_f64 = {g:?} for {w:?}")),
    }
    if nopanic("is_f64", || jsonb::is_f64(&b))? != gf.is_some() {
        return Err("is_f64 disagrees with as_f64".into());
    }
    let gs = nopanic("as_str", || jsonb::as_str(&b).map(|s| s.to_string()))?;
    if gs != (if let M::Str(s) = m { Some(s.clone()) } else { None }) {
        return Err(format!("as_str = {gs:?}"));
    }

    // to_* casts: what the tests establish (tests/it/functions.rs test_to_type), and for
    // strings only "exact or rejected"
    let tb = nopanic("to_bool", || jsonb::to_bool(&b))?;
    match m {
        M::Bool(x) if tb != Ok(*x) => return Err(format!("to_bool = {tb:?}")),
        M::Str(s) if s == "true" && tb != Ok(true) => return Err(format!("to_bool(\"true\") = {tb:?}")),
        M::Str(s) if s == "false" && tb != Ok(false) => return Err(format!("to_bool(\"false\") = {tb:?}")),
        M::Str(s) if !s.eq_ignore_ascii_case("true") && !s.eq_ignore_ascii_case("false") && tb.is_ok() => {
            return Err(format!("to_bool({s:?}) = {tb:?}"))
        }
        M::Null | M::Num(_) | M::Arr(_) | M::Obj(_) if tb.is_ok() => return Err(format!("to_bool of a {} = {tb:?}", m.kind())),
        _ => {}
    }
    let ti = nopanic("to_i64", || jsonb::to_i64(&b))?;
    let tu = nopanic("to_u64", || jsonb::to_u64(&b))?;
    let tf = nopanic("to_f64", || jsonb::to_f64(&b))?;
    match m {
        M::Bool(x) => {
            let v = *x as i64;
            if ti != Ok(v) || tu != Ok(v as u64) || tf != Ok(v as f64) {
                return Err(format!("to_i64/u64/f64 of {x} = {ti:?}/{tu:?}/{tf:?}"));
            }
        }
        M::Num(_) => {
            if ti.clone().ok() != t::as_i64(m) || tu.clone().ok() != t::as_u64(m) {
                return Err(format!("to_i64/to_u64 = {ti:?}/{tu:?}, views are {:?}/{:?}", t::as_i64(m), t::as_u64(m)));
            }
            match (&tf, gf) {
                (Ok(a), Some(b)) if N::F(*a).ident_eq(&N::F(b)) => {}
                _ => return Err(format!("to_f64 = {tf:?}, as_f64 = {gf:?}")),
            }
        }
        M::Str(s) => {
            if let Ok(v) = ti {
                if s.parse::<i64>() != Ok(v) {
                    return Err(format!("to_i64({s:?}) = {v}"));
                }
            }
            if let Ok(v) = tu {
                if s.parse::<u64>() != Ok(v) {
                    return Err(format!("to_u64({s:?}) = {v}"));
                }
            }
            if let Ok(v) = tf {
                match s.parse::<f64>() {
                    Ok(w) if N::F(w).ident_eq(&N::F(v)) => {}
                    _ => return Err(format!("to_f64({s:?}) = {v}")),
                }
            }
        }
        _ => {
            if ti.is_ok() || tu.is_ok() || tf.is_ok() {
                return Err(format!("numeric cast of a {} succeeded: {ti:?}/{tu:?}/{tf:?}", m.kind()));
            }
        }
    }
    let ts = nopanic("to_str", || jsonb::to_str(&b))?;
    match m {
        M::Str(s) if ts.as_ref() != Ok(s) => return Err(format!("to_str = {ts:?}")),
        M::Bool(x) if ts != Ok(x.to_string()) => return Err(format!("to_str = {ts:?}")),
        M::Num(n) => {
            let s = ts.clone().map_err(|e| format!("to_str of a number failed: {e:?}"))?;
            let rendering = nopanic("to_string", || jsonb::to_string(&b))?;
            if s != rendering {
                return Err(format!("to_str = {s:?} but to_string = {rendering:?}"));
            }
            if n.is_finite() {
                // must parse back to the same number
                let back: f64 = s.parse().map_err(|_| format!("to_str = {s:?} is not a number"))?;
                let ok = match n.norm() {
                    N::F(f) => back.to_bits() == f.to_bits() || (back == 0.0 && f == 0.0),
                    N::I(v) => s.parse::<i64>() == Ok(v),
                    N::U(v) => s.parse::<u64>() == Ok(v),
                };
                if !ok {
                    return Err(format!("to_str({n:?}) = {s:?} does not read back as the same number"));
                }
            }
        }
        M::Null | M::Arr(_) | M::Obj(_) if ts.is_ok() => return Err(format!("to_str of a {} = {ts:?}", m.kind())),
        _ => {}
    }

    // exists_all_keys / exists_any_keys
    let keys: Vec<Vec<u8>> = c.keys.iter().map(|k| k.0.clone()).collect();
    let ga = nopanic("exists_all_keys", || jsonb::exists_all_keys(&b, keys.iter().map(|k| k.as_slice())))?;
    let gy = nopanic("exists_any_keys", || jsonb::exists_any_keys(&b, keys.iter().map(|k| k.as_slice())))?;
    if ga != t::exists_all_keys(m, &keys) {
        return Err(format!("exists_all_keys({:?}) = {ga}", c.keys));
    }
    if gy != t::exists_any_keys(m, &keys) {
        return Err(format!("exists_any_keys({:?}) = {gy}", c.keys));
    }
    obs.label_if(gy, "exists_any-hit");
    obs.label_if(ga && !keys.is_empty(), "exists_all-hit");

    // traverse_check_string
    let p = pred(c.pred_kind, &c.pred_arg);
    let gt = nopanic("traverse_check_string", || jsonb::traverse_check_string(&b, &p))?;
    let wt = t::traverse_check_string(m, &p);
    if gt != wt {
        return Err(format!("traverse_check_string(kind {}, {:?}) = {gt}, tree says {wt}", c.pred_kind, c.pred_arg));
    }
    obs.label_if(gt, "traverse-hit");
    nt |= gt && m.depth() >= 2;

    obs.nt_if(nt);
    Ok(())
}

fn run(ctx: &mut Ctx) {
    let cases = ctx.share(ctx.tier.pick(400_000, 4_000_000));
    let p = ctx.tier.pick(TreeParams::quick(), TreeParams::thorough()).with_big(3);
    run_strategy(ctx, "C05", "accessors", cases, arb_case(p), check);
}
