//! C06 — editing functions produce exactly the document the edit denotes.

use super::{replay_with, Prop, Sub};
use crate::engine::{nopanic, run_strategy, Ctx, Obs};
use crate::gen::*;
use crate::model::*;
use crate::treefn::{self as t, EditErr, KP};
use proptest::collection::vec;
use proptest::prelude::*;
use std::collections::BTreeSet;

pub fn prop() -> Prop {
    Prop {
        id: "C06",
        title: "Editing functions produce exactly the document the edit denotes",
        rule: "(document, second document derived from the first or independent, arguments): positions from \
               below -len to above len and the i32 extremes, key sets drawn from the document's keys (subsets, \
               supersets, disjoint), key paths by random walk into and past scalars, nulls planted by the tree \
               generator at every depth, new values of every kind, build_array from 0-6 parts, build_object \
               from 0-6 or 30-70 (key, part) pairs in arbitrary order, keys distinct or (minority) repeated with the last value winning. Each editor's appended bytes \
               are compared with enc(tree edit) and its Result with the documented error; every successful edit is repeated \
               into a buffer that already holds an earlier result and must append the same bytes there; on error the buffer \
               (pre-filled) must be unchanged. Non-trivial = some editor changed the document or returned a \
               documented error, and the document has depth >= 2 or more than one child.",
        assumptions: &["tree edits in treefn.rs are the meaning of each editor (from the statement and doc comments)"],
        subs: vec![Sub { name: "editors", run, replay: |j| replay_with::<Case>(j, check) }],
    }
}

crate::jser_struct! {
    pub struct Case {
        pub doc: M,
        pub doc2: M,
        pub pos: i32,
        pub name: String,
        pub keys: Vec<String>,
        pub path: Vec<KP>,
        pub new_val: M,
        pub update: bool,
        pub parts: Vec<M>,
        pub obj_parts: Vec<(String, M)>,
    }
}

pub fn arb_case(p: TreeParams) -> BoxedStrategy<Case> {
    (
        arb_doc(p),
        (any::<u8>(), arb_doc(TreeParams::small()), vec(arb_mutation(), 1..3)),
        any::<u16>(),
        (any::<u16>(), any::<u16>(), arb_string()),
        vec((any::<u16>(), any::<u16>(), arb_string()), 0..4),
        (vec((any::<u16>(), any::<u16>(), any::<u16>()), 0..6), arb_string()),
        (arb_tree(TreeParams::small()), any::<bool>()),
        (
            prop_oneof![8 => vec(arb_tree(TreeParams::small()), 0..6), 1 => vec(arb_scalar(false), 30..70)],
            prop_oneof![
                8 => vec((arb_key(), arb_tree(TreeParams::small())), 0..6),
                // many parts with distinct keys in arbitrary order (a sort or a merge has to handle them)
                1 => (vec(arb_scalar(false), 30..70), any::<u16>()).prop_map(|(v, r)| {
                    let n = v.len();
                    // r % 3 == 0: keys repeat (modulus smaller than the number of parts)
                    let modulus = if r % 3 == 0 { 23 } else { 997 };
                    let mut out: Vec<(String, M)> = v.into_iter().enumerate().map(|(i, m)| (format!("k{:03}", (i * 37 + r as usize) % modulus), m)).collect();
                    out.rotate_left(r as usize % n.max(1));
                    out
                }),
            ],
        ),
    )
        .prop_map(|(doc, (m2, indep, muts), psel, (nsel, nmode, nextra), ksel, (steps, pextra), (new_val, update), (parts, op))| {
            let doc2 = match m2 % 3 {
                0 => indep,
                1 => apply_mutations(&doc, &muts, MutKind::Any),
                _ => match (&doc, &indep) {
                    // same kind as doc, different content
                    (M::Obj(_), M::Obj(_)) | (M::Arr(_), M::Arr(_)) => indep,
                    _ => apply_mutations(&doc, &muts, MutKind::Breaking),
                },
            };
            let len = match &doc {
                M::Arr(a) => a.len(),
                _ => 1,
            };
            let pos = derive_index(len, psel) as i32;
            let mut names = top_keys(&doc);
            if let M::Arr(a) = &doc {
                names.extend(a.iter().filter_map(|x| if let M::Str(s) = x { Some(s.clone()) } else { None }));
            }
            let name = derive_name(&names, nsel, nmode, &nextra);
            let tk = top_keys(&doc);
            let keys = ksel.into_iter().map(|(s, m, e)| derive_name(&tk, s, m, &e)).collect();
            let path = derive_path(&doc, &steps, &pextra);
            // caller order kept; a repeated key is allowed in a minority of cases (the last
            // value wins, as for duplicate keys in JSON text and for concat)
            let mut seen = BTreeSet::new();
            let keep_dups = psel % 5 == 0;
            let obj_parts = op.into_iter().filter(|(k, _)| seen.insert(k.clone()) || keep_dups).collect();
            Case { doc, doc2, pos, name, keys, path, new_val, update, parts, obj_parts }
        })
        .boxed()
}

fn map_err(e: &jsonb::Error) -> Option<EditErr> {
    match e {
        jsonb::Error::InvalidJsonType => Some(EditErr::InvalidJsonType),
        jsonb::Error::InvalidObject => Some(EditErr::InvalidObject),
        jsonb::Error::ObjectDuplicateKey => Some(EditErr::ObjectDuplicateKey),
        _ => None,
    }
}

/// runs one editor twice (empty buffer, pre-filled buffer) and judges it
fn judge(
    what: &str,
    want: Result<M, EditErr>,
    input: &M,
    obs: &mut Obs,
    labels: (&'static str, &'static str, &'static str),
    call: &dyn Fn(&mut Vec<u8>) -> Result<(), jsonb::Error>,
) -> Result<bool, String> {
    let mut buf = Vec::new();
    let r = nopanic(what, || call(&mut buf))?;
    match (&r, &want) {
        (Ok(()), Ok(w)) => {
            let e = w.enc();
            if buf != e {
                return Err(format!(
                    "{what}: wrote {}\n  but the edited document {w:?}\n  encodes as {}",
                    hex(&buf),
                    hex(&e)
                ));
            }
            // the same call into a buffer that already holds an earlier result: the edited document is
            // what gets appended (a header or offset written relative to the start of the buffer
            // instead of the start of this result shows only here)
            let mut pre = e.clone();
            pre.extend_from_slice(&[0xAA, 0x55, 0x20]);
            let plen = pre.len();
            let r2 = nopanic(what, || call(&mut pre))?;
            if let Err(x) = r2 {
                return Err(format!("{what}: succeeded into an empty buffer but returned {x:?} into a buffer that held {plen} bytes"));
            }
            if pre.len() < plen || pre[..plen - 3] != e[..] || pre[plen - 3..plen] != [0xAA, 0x55, 0x20] || pre[plen..] != e[..] {
                return Err(format!(
                    "{what}: into a buffer that already held {plen} bytes (an earlier result and AA5520) the buffer became {}\n  expected those bytes followed by {}",
                    hex(&pre),
                    hex(&e)
                ));
            }
            let changed = !w.ident_eq(&input.norm());
            obs.label(if changed { labels.0 } else { labels.1 });
            Ok(changed)
        }
        (Err(e), Err(w)) => {
            if map_err(e).as_ref() != Some(w) {
                return Err(format!("{what}: returned {e:?}, documented error is {w:?}"));
            }
            if !buf.is_empty() {
                return Err(format!("{what}: returned {e:?} but left {} in the (empty) buffer", hex(&buf)));
            }
            let mut pre = vec![0xAA, 0x55, 0x20, 0x00];
            let _ = nopanic(what, || call(&mut pre))?;
            if pre != [0xAA, 0x55, 0x20, 0x00] {
                return Err(format!("{what}: returned {e:?} but changed the output buffer to {}", hex(&pre)));
            }
            obs.label(labels.2);
            Ok(true)
        }
        (Ok(()), Err(w)) => Err(format!("{what}: succeeded and wrote {}, documented result is {w:?}", hex(&buf))),
        (Err(e), Ok(w)) => Err(format!("{what}: returned {e:?}, but the edit is defined and gives {w:?}")),
    }
}

pub fn check(c: &Case, obs: &mut Obs) -> Result<(), String> {
    let m = &c.doc;
    let b = m.enc();
    let b2 = c.doc2.enc();
    let nb = c.new_val.enc();
    let mut nt = false;

    nt |= judge(
        &format!("concat(doc, {:?})", c.doc2),
        Ok(t::concat(m, &c.doc2)),
        m,
        obs,
        ("concat-changed", "concat-same", "concat-error"),
        &|buf| jsonb::concat(&b, &b2, buf),
    )?;
    judge(
        &format!("concat({:?}, doc)", c.doc2),
        Ok(t::concat(&c.doc2, m)),
        m,
        obs,
        ("concat-changed", "concat-same", "concat-error"),
        &|buf| jsonb::concat(&b2, &b, buf),
    )?;
    // the same edits with a document or the new value given as JSON text (non-negative integers
    // of a text are unsigned, so the text side is the document's unsigned form)
    if m.all_finite() && c.doc2.all_finite() && c.new_val.all_finite() && m.size() + c.doc2.size() < 3000 {
        let sel = [(b.len() as u16).wrapping_mul(31), 5, 11];
        let (mu, m2u, nvu) = (m.unsigned_norm(), c.doc2.unsigned_norm(), c.new_val.unsigned_norm());
        let (tm, t2, tn) = (crate::textref::model_text(&mu, &sel), crate::textref::model_text(&m2u, &sel), crate::textref::model_text(&nvu, &sel));
        judge(&format!("concat(doc, text of {:?})", c.doc2), Ok(t::concat(m, &m2u)), m, obs, ("concat-text", "concat-text", "concat-error"), &|buf| jsonb::concat(&b, &t2, buf))?;
        judge(&format!("concat(text of doc, {:?})", c.doc2), Ok(t::concat(&mu, &c.doc2)), m, obs, ("concat-text", "concat-text", "concat-error"), &|buf| jsonb::concat(&tm, &b2, buf))?;
        judge(&format!("concat(text of doc, text of {:?})", c.doc2), Ok(t::concat(&mu, &m2u)), m, obs, ("concat-text", "concat-text", "concat-error"), &|buf| jsonb::concat(&tm, &t2, buf))?;
        judge(
            &format!("array_insert({}, text of {:?})", c.pos, c.new_val),
            Ok(t::array_insert(m, c.pos, &nvu)),
            m,
            obs,
            ("array_insert-text", "array_insert-text", "array_insert-error"),
            &|buf| jsonb::array_insert(&b, c.pos, &tn, buf),
        )?;
        judge(
            &format!("object_insert({:?}, text of {:?}, update={})", c.name, c.new_val, c.update),
            t::object_insert(m, &c.name, &nvu, c.update),
            m,
            obs,
            ("object_insert-text", "object_insert-text", "object_insert-error"),
            &|buf| jsonb::object_insert(&b, &c.name, &tn, c.update, buf),
        )?;
        let kp: Vec<_> = c.path.iter().map(|k| k.to_lib()).collect();
        judge(
            &format!("delete_by_keypath({:?}) on the text of doc", c.path),
            t::delete_by_keypath(&mu, &c.path),
            &mu,
            obs,
            ("delete_by_keypath-text", "delete_by_keypath-text", "delete_by_keypath-error"),
            &|buf| jsonb::delete_by_keypath(&tm, kp.iter(), buf),
        )?;
    }
    nt |= judge(
        &format!("delete_by_name({:?})", c.name),
        t::delete_by_name(m, &c.name),
        m,
        obs,
        ("delete_by_name-changed", "delete_by_name-noop", "delete_by_name-error"),
        &|buf| jsonb::delete_by_name(&b, &c.name, buf),
    )?;
    nt |= judge(
        &format!("delete_by_index({})", c.pos),
        t::delete_by_index(m, c.pos),
        m,
        obs,
        ("delete_by_index-changed", "delete_by_index-noop", "delete_by_index-error"),
        &|buf| jsonb::delete_by_index(&b, c.pos, buf),
    )?;
    let lp: Vec<_> = c.path.iter().map(|k| k.to_lib()).collect();
    nt |= judge(
        &format!("delete_by_keypath({:?})", c.path),
        t::delete_by_keypath(m, &c.path),
        m,
        obs,
        ("delete_by_keypath-changed", "delete_by_keypath-noop", "delete_by_keypath-error"),
        &|buf| jsonb::delete_by_keypath(&b, lp.iter(), buf),
    )?;
    nt |= judge(
        &format!("array_insert({}, {:?})", c.pos, c.new_val),
        Ok(t::array_insert(m, c.pos, &c.new_val)),
        m,
        obs,
        ("array_insert-changed", "array_insert-same", "array_insert-error"),
        &|buf| jsonb::array_insert(&b, c.pos, &nb, buf),
    )?;
    nt |= judge(
        &format!("object_insert({:?}, {:?}, update={})", c.name, c.new_val, c.update),
        t::object_insert(m, &c.name, &c.new_val, c.update),
        m,
        obs,
        ("object_insert-changed", "object_insert-same", "object_insert-error"),
        &|buf| jsonb::object_insert(&b, &c.name, &nb, c.update, buf),
    )?;
    let keyset: BTreeSet<&str> = c.keys.iter().map(|s| s.as_str()).collect();
    nt |= judge(
        &format!("object_delete({:?})", c.keys),
        t::object_delete(m, &c.keys),
        m,
        obs,
        ("object_delete-changed", "object_delete-noop", "object_delete-error"),
        &|buf| jsonb::object_delete(&b, &keyset, buf),
    )?;
    nt |= judge(
        &format!("object_pick({:?})", c.keys),
        t::object_pick(m, &c.keys),
        m,
        obs,
        ("object_pick-changed", "object_pick-all", "object_pick-error"),
        &|buf| jsonb::object_pick(&b, &keyset, buf),
    )?;
    nt |= judge(
        "strip_nulls",
        Ok(t::strip_nulls(m)),
        m,
        obs,
        ("strip_nulls-changed", "strip_nulls-noop", "strip_nulls-error"),
        &|buf| jsonb::strip_nulls(&b, buf),
    )?;
    // builders
    let pe: Vec<Vec<u8>> = c.parts.iter().map(|x| x.enc()).collect();
    if c.parts.len() % 2 == 1 {
        // a rejected call first (the same parts, then one with an invalid header): it must fail
        // and leave no trace in the calls that follow. (What it leaves in its own output buffer
        // is not specified: a malformed part is outside "every valid input".)
        let garbage: &[u8] = [&[0x00u8, 0, 0, 0][..], &[0x60, 0, 0, 1, 0, 0], &[0x20, 0]][c.parts.len() / 2 % 3];
        let mut sink = Vec::new();
        let r = nopanic("build_array with an invalid part", || jsonb::build_array(pe.iter().map(|x| x.as_slice()).chain([garbage]), &mut sink))?;
        if r.is_ok() {
            return Err(format!("build_array with a part {} succeeded", hex(garbage)));
        }
        sink.clear();
        let r = nopanic("build_object with an invalid part", || {
            jsonb::build_object(pe.iter().enumerate().map(|(i, x)| (["a", "b", "c"][i % 3], x.as_slice())).chain([("z", garbage)]), &mut sink)
        })?;
        if r.is_ok() {
            return Err(format!("build_object with a part {} succeeded", hex(garbage)));
        }
        obs.label("build-after-rejected-build");
    }
    judge(
        &format!("build_array({:?})", c.parts),
        Ok(M::Arr(c.parts.clone())),
        m,
        obs,
        ("build_array", "build_array", "build_array-error"),
        &|buf| {
            if c.update {
                // an iterator whose size_hint is not exact
                jsonb::build_array(pe.iter().map(|x| x.as_slice()).filter(|x| !x.is_empty()), buf)
            } else {
                jsonb::build_array(pe.iter().map(|x| x.as_slice()), buf)
            }
        },
    )?;
    let oe: Vec<(String, Vec<u8>)> = c.obj_parts.iter().map(|(k, v)| (k.clone(), v.enc())).collect();
    let sorted = c.obj_parts.windows(2).all(|w| w[0].0.as_bytes() < w[1].0.as_bytes());
    obs.label_if(!sorted, "build_object-unsorted-input");
    judge(
        &format!("build_object({:?})", c.obj_parts),
        Ok(t::build_object(&c.obj_parts)),
        m,
        obs,
        ("build_object", "build_object", "build_object-error"),
        &|buf| {
            if c.update {
                jsonb::build_object(oe.iter().map(|(k, v)| (k.as_str(), v.as_slice())).filter(|(_, v)| !v.is_empty()), buf)
            } else {
                jsonb::build_object(oe.iter().map(|(k, v)| (k.as_str(), v.as_slice())), buf)
            }
        },
    )?;

    let kids = match m {
        M::Arr(a) => a.len(),
        M::Obj(o) => o.len(),
        _ => 0,
    };
    obs.nt_if(nt && (m.depth() >= 2 || kids > 1));
    Ok(())
}

fn run(ctx: &mut Ctx) {
    let cases = ctx.share(ctx.tier.pick(250_000, 3_000_000));
    let p = ctx.tier.pick(TreeParams::quick(), TreeParams::thorough()).with_big(3);
    run_strategy(ctx, "C06", "editors", cases, arb_case(p), check);
}
