//! C09 — JSONPath syntax: every documented form parses as intended; printing is faithful.

use super::{replay_with, Prop, Sub};
use crate::engine::{nopanic, pick, run_strategy, Ctx, Obs};
use crate::gen::arb_string;
use crate::jser::Bytes;
use crate::pathmodel::*;
use jsonb::jsonpath::parse_json_path;
use proptest::collection::vec;
use proptest::prelude::*;

pub fn prop() -> Prop {
    Prop {
        id: "C09",
        title: "JSONPath syntax: every documented form parses as intended; printing is faithful",
        rule: "forms: abstract paths from a grammar of the documented language (root, Snowflake-style bare first \
               name, .name / .\"name\" / :name / [\"name\"], .*, [*], index lists, ranges, last +- n over the i32 \
               range, filters with nested and/or/parentheses, exists with nested filters, literals of every kind \
               incl. negative, fractional, exponent, > u64 and the empty string, literal on either side, root \
               predicates) rendered in every spelling variant (optional whitespace at every grammar point, \
               last/to in any letter case, either quoting style, redundant parentheses, != vs <>); the parse must \
               be structurally equal to the intended AST with exact number classification, and \
               parse(to_string(ast)) == ast when all names and strings are plain. reject: renderings made \
               invalid by construction (junk closer appended, one closer or quote removed, an operand deleted). \
               raw: token soups and raw bytes: never a panic, and an accepted input obeys the print/parse law. \
               Non-trivial = path with >= 3 steps, or >= 2 filter atoms, or a non-integer literal; every reject \
               and raw case counts once. Distinct = distinct input text.",
        assumptions: &["pathmodel.rs printer emits only forms of the documented grammar; whitespace after an unquoted name is restricted to blanks"],
        subs: vec![
            Sub { name: "forms", run: run_forms, replay: |j| replay_with::<FormCase>(j, check_form) },
            Sub { name: "reject", run: run_reject, replay: |j| replay_with::<String>(j, check_reject) },
            Sub { name: "raw", run: run_raw, replay: |j| replay_with::<Bytes>(j, check_raw) },
            // regression-only: texts of documented forms that must be accepted (no generator)
            Sub { name: "accept", run: |_| {}, replay: |j| replay_with::<String>(j, check_accept) },
        ],
    }
}

/// the path is a pure function of these choices; `to_j` also writes the rendered text
#[derive(Clone, Debug)]
pub struct FormCase {
    pub ch: Vec<u16>,
    pub strs: Vec<String>,
    pub style: Vec<u16>,
    pub plain: bool,
}
impl crate::jser::Jser for FormCase {
    fn to_j(&self) -> serde_json::Value {
        let ast = random_path_ast(&self.ch, &self.strs);
        let text = print(&ast, &mut Style::new(&self.style, self.plain));
        serde_json::json!({
            "text": text,
            "intended": format!("{ast:?}"),
            "ch": self.ch.to_j(), "strs": self.strs.to_j(), "style": self.style.to_j(), "plain": self.plain,
        })
    }
    fn from_j(j: &serde_json::Value) -> Result<Self, String> {
        Ok(FormCase {
            ch: Vec::<u16>::from_j(j.get("ch").ok_or("ch")?)?,
            strs: Vec::<String>::from_j(j.get("strs").ok_or("strs")?)?,
            style: Vec::<u16>::from_j(j.get("style").ok_or("style")?)?,
            plain: bool::from_j(j.get("plain").ok_or("plain")?)?,
        })
    }
}

fn parse(text: &[u8]) -> Result<Result<PathAst, String>, String> {
    let r = nopanic(&format!("parse_json_path({:?})", String::from_utf8_lossy(text)), || {
        parse_json_path(text).map(|p| (from_lib(&p), format!("{p}"))).map_err(|e| format!("{e:?}"))
    })?;
    Ok(match r {
        Ok((Ok(a), _)) => Ok(a),
        Ok((Err(e), _)) => Err(format!("accepted, but the structure is outside the model: {e}")),
        Err(e) => Err(format!("rejected: {e}")),
    })
}

/// print/parse law on whatever the parser accepted
fn roundtrip(text: &[u8], obs: &mut Obs) -> Result<(), String> {
    let parsed = nopanic("parse_json_path", || parse_json_path(text).ok().map(|p| (from_lib(&p), format!("{p}"))))?;
    if let Some((Ok(ast), printed)) = parsed {
        if all_text_plain(&ast) && !has_nonfinite(&ast) {
            let again = parse(printed.as_bytes())?;
            match again {
                Ok(a2) if unsign_literals(&normalize(&a2)) == unsign_literals(&normalize(&ast)) => obs.label("roundtrip-checked"),
                other => {
                    let msg = format!(
                        "printing {:?} gives {printed:?}, which parses back as {other:?}\n  original structure {ast:?}",
                        String::from_utf8_lossy(text)
                    );
                    // `last+-2147483648` is LastIndex(i32::MIN); it prints as `last-2147483648`,
                    // whose magnitude no longer fits the i32 the grammar reads after `last -`
                    let dbg = format!("{ast:?}");
                    if (dbg.contains("Last(-2147483648)") || dbg.contains("LastIndex(-2147483648)")) && printed.contains("last-2147483648") {
                        return crate::known::tolerate("C09", "F24", obs, msg);
                    }
                    return Err(msg);
                }
            }
        }
    }
    Ok(())
}

fn has_nonfinite(a: &PathAst) -> bool {
    format!("{a:?}").contains("NaN") || format!("{a:?}").contains("inf")
}

pub fn check_form(c: &FormCase, obs: &mut Obs) -> Result<(), String> {
    let ast = random_path_ast(&c.ch, &c.strs);
    let text = print(&ast, &mut Style::new(&c.style, c.plain));
    obs.ident = Some(text.clone());
    let (steps, atoms, nonint) = ast_stats(&ast);
    obs.nt_if(steps >= 3 || atoms >= 2 || nonint);
    obs.label_if(matches!(ast, PathAst::Predicate(_)), "root-predicate");
    obs.label_if(atoms >= 2, "filter-with>=2-atoms");
    obs.label_if(nonint, "non-integer-literal");
    match parse(text.as_bytes())? {
        Ok(got) => {
            if normalize(&got) != normalize(&ast) {
                return Err(format!("{text:?} parses as\n  {got:?}\n  intended structure\n  {ast:?}"));
            }
        }
        Err(e) => return Err(format!("{text:?} is a documented form but was {e}\n  intended structure {ast:?}")),
    }
    roundtrip(text.as_bytes(), obs)
}

pub fn check_accept(text: &String, obs: &mut Obs) -> Result<(), String> {
    match parse(text.as_bytes())? {
        Ok(_) => roundtrip(text.as_bytes(), obs),
        Err(e) => Err(format!("{text:?} is a documented form but was {e}")),
    }
}

fn arb_form() -> BoxedStrategy<FormCase> {
    (vec(any::<u16>(), 4..48), vec(arb_string(), 0..3), vec(any::<u16>(), 0..16), any::<bool>())
        .prop_map(|(ch, strs, style, plain)| FormCase { ch, strs, style, plain })
        .boxed()
}

fn run_forms(ctx: &mut Ctx) {
    let cases = ctx.share(ctx.tier.pick(400_000, 4_000_000));
    run_strategy(ctx, "C09", "forms", cases, arb_form(), check_form);
}

// ---- must-reject by construction ------------------------------------------------------------

/// positions of structural characters outside string literals
fn outside_strings(t: &str) -> Vec<(usize, char)> {
    let mut out = vec![];
    let (mut s, mut e) = (false, false);
    for (i, c) in t.char_indices() {
        if s {
            if e {
                e = false;
            } else if c == '\\' {
                e = true;
            } else if c == '"' {
                s = false;
                out.push((i, '"'));
            }
        } else if c == '"' {
            s = true;
            out.push((i, '"'));
        } else {
            out.push((i, c));
        }
    }
    out
}

fn make_invalid(text: &str, sel: u16, kind: u8) -> Option<String> {
    let os = outside_strings(text);
    match kind % 4 {
        0 => {
            let junk = [")", "]", "}", ",", "'", " )", " ]"][pick(sel, 7)];
            Some(format!("{text}{junk}"))
        }
        1 => {
            let closers: Vec<usize> = os.iter().filter(|(_, c)| *c == ')' || *c == ']').map(|(i, _)| *i).collect();
            if closers.is_empty() {
                return None;
            }
            let i = closers[pick(sel, closers.len())];
            let mut t = text.to_string();
            t.remove(i);
            Some(t)
        }
        2 => {
            let quotes: Vec<usize> = os.iter().filter(|(_, c)| *c == '"').map(|(i, _)| *i).collect();
            if quotes.is_empty() {
                return None;
            }
            let i = quotes[pick(sel, quotes.len())];
            let mut t = text.to_string();
            t.remove(i);
            Some(t)
        }
        _ => {
            // delete the right operand of a comparison that is followed by `)`
            let t = text.to_string();
            for op in ["==", "!=", "<>", "<=", ">=", "<", ">"] {
                if let Some(p) = t.find(op) {
                    // only when the operator is outside strings
                    if os.iter().any(|(i, _)| *i == p) {
                        if let Some(close) = t[p..].find(')') {
                            return Some(format!("{}{}", &t[..p + op.len()], &t[p + close..]));
                        }
                    }
                }
            }
            None
        }
    }
}

pub fn check_reject(text: &String, obs: &mut Obs) -> Result<(), String> {
    obs.nt();
    obs.ident = Some(text.clone());
    let r = nopanic(&format!("parse_json_path({text:?})"), || parse_json_path(text.as_bytes()).map(|p| format!("{p:?}")))?;
    if let Ok(p) = r {
        return Err(format!("{text:?} is not a path of the documented language but was accepted as {p}"));
    }
    Ok(())
}

fn run_reject(ctx: &mut Ctx) {
    let cases = ctx.share(ctx.tier.pick(150_000, 1_500_000));
    let strat = (arb_form(), any::<u16>(), any::<u8>()).prop_filter_map("no place to corrupt", |(f, sel, kind)| {
        let ast = random_path_ast(&f.ch, &f.strs);
        // quoted text must not itself hold brackets or quotes, so that the counting argument is sound
        if !all_text_plain(&ast) {
            return None;
        }
        let text = print(&ast, &mut Style::new(&f.style, f.plain));
        make_invalid(&text, sel, kind)
    });
    run_strategy(ctx, "C09", "reject", cases, strat, check_reject);
}

// ---- raw input ---------------------------------------------------------------------------------

const TOKENS: &[&str] = &[
    "$", "@", ".", ":", "*", ".*", "[", "]", "[*]", "(", ")", "?", "?(", ",", "\"", "\\", "\\u", "\\u{", "}", "{", "0", "1", "-1", "2147483647",
    "2147483648", "last", "LAST", "to", " to ", "+", "-", "==", "!=", "<>", "<", "<=", ">", ">=", "&&", "||", "exists", "exists(", "null",
    "true", "false", "1.5", "1e5", ".5", "\"a\"", "\"\"", "a", "key", "测", " ", "\t", "\n", "'", "\"abc", "\\\"", "D83D", "\\uD83D\\uDC8E", "%", "/",
    "nan", "inf", "last+-2147483648", "last - -1", "[last+-2147483648]", "+5", "-2147483648", "last - -2147483648", "[last - -2147483648]",
    "[-2147483648 to last]", "last-2147483647", "last+2147483647",
];

pub fn check_raw(b: &Bytes, obs: &mut Obs) -> Result<(), String> {
    obs.nt();
    obs.ident = Some(crate::model::hex(&b.0));
    let r = nopanic(&format!("parse_json_path({:?})", String::from_utf8_lossy(&b.0)), || parse_json_path(&b.0).is_ok())?;
    obs.label(if r { "raw-accepted" } else { "raw-rejected" });
    roundtrip(&b.0, obs)
}

fn run_raw(ctx: &mut Ctx) {
    let cases = ctx.share(ctx.tier.pick(400_000, 4_000_000));
    let soup = vec(0..TOKENS.len(), 0..12).prop_map(|ix| Bytes(ix.into_iter().flat_map(|i| TOKENS[i].bytes()).collect()));
    let raw = vec(any::<u8>(), 0..20).prop_map(Bytes);
    // one-byte corruption of a valid rendering
    let near = (arb_form(), any::<u16>(), any::<u8>(), any::<u16>()).prop_map(|(f, at, op, tok)| {
        let ast = random_path_ast(&f.ch, &f.strs);
        let mut t = print(&ast, &mut Style::new(&f.style, f.plain)).into_bytes();
        if !t.is_empty() {
            let i = pick(at, t.len());
            match op % 4 {
                0 => {
                    t.remove(i);
                }
                1 => t.truncate(i),
                2 => {
                    let tk = TOKENS[pick(tok, TOKENS.len())];
                    t.splice(i..i + 1, tk.bytes());
                }
                _ => {
                    let tk = TOKENS[pick(tok, TOKENS.len())];
                    t.splice(i..i, tk.bytes());
                }
            }
        }
        Bytes(t)
    });
    run_strategy(ctx, "C09", "raw", cases, prop_oneof![4 => soup, 1 => raw, 4 => near], check_raw);
}
