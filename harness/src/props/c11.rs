//! C11 — functions give the same answer for JSON text as for its JSONB encoding.

use super::{replay_with, Prop, Sub};
use crate::engine::{nopanic, run_strategy, Ctx, Obs};
use crate::gen::*;
use crate::model::*;
use crate::pathmodel::{arb_path_for, PathCase};
use crate::textref::{model_text, ref_parse, Mode};
use crate::treefn::KP;
use proptest::collection::vec;
use proptest::prelude::*;
use std::collections::BTreeSet;

pub fn prop() -> Prop {
    Prop {
        id: "C11",
        title: "Functions give the same answer for JSON text as for its JSONB encoding",
        rule: "strict RFC 8259 texts written by the reference writer (random spellings, member order, \
               whitespace; may start with tab/newline/CR, never with a space; long number texts and strings \
               whose early bytes look like binary headers) for a generated document and a second document \
               (derived from the first or independent), plus the arguments of C05/C06/C08. Every public function \
               taking k document arguments is called with all 2^k text/binary assignments and compared with the \
               all-binary call: same boolean/ordering/number/string/option, byte-identical JSONB output, same \
               Ok/Err outcome (variant compared for documented errors), text renderings compared as documents, \
               serde conversions structurally. Non-trivial = case with a two-document function (mixed \
               assignment exercised) on documents of depth >= 1, or a text whose first byte has the type bits \
               of a binary header. Distinct = distinct (texts, arguments).",
        assumptions: &["the all-binary call is the reference answer (its correctness is the subject of C04-C08, C12, C13)"],
        subs: vec![Sub { name: "functions", run, replay: |j| replay_with::<Case>(j, check) }],
    }
}

crate::jser_struct! {
    pub struct Case {
        pub args: super::c06::Case,
        pub pc: PathCase,
        pub sels: Vec<u16>,
        pub lead: u8,
        pub index: u64,
        pub keys: Vec<String>,
    }
}

fn h(b: &[u8]) -> String {
    hex(b)
}
fn res_buf(r: Result<(), jsonb::Error>, buf: &[u8]) -> String {
    match r {
        Ok(()) => format!("Ok {}", h(buf)),
        // the outcome must agree; the variant only for the documented error kinds
        Err(jsonb::Error::InvalidJsonType) => "Err InvalidJsonType".into(),
        Err(jsonb::Error::InvalidObject) => "Err InvalidObject".into(),
        Err(jsonb::Error::ObjectDuplicateKey) => "Err ObjectDuplicateKey".into(),
        Err(jsonb::Error::InvalidJsonPathPredicate) => "Err InvalidJsonPathPredicate".into(),
        Err(_) => "Err (other)".into(),
    }
}
fn ov(o: Option<Vec<u8>>) -> String {
    match o {
        Some(b) => format!("Some {}", h(&b)),
        None => "None".into(),
    }
}
/// a text rendering, compared as the document it denotes
fn as_doc(s: &str) -> String {
    match ref_parse(s.as_bytes(), Mode::Relaxed) {
        Ok(m) => format!("doc {:?}", m.norm()),
        Err(e) => format!("not a document ({e}): {s:?}"),
    }
}
fn num(n: Option<jsonb::Number>) -> String {
    format!("{:?}", n.map(|n| N::from_lib(&n).norm()).map(|n| n.enc_vec()))
}

type F1<'a> = (&'static str, Box<dyn Fn(&[u8]) -> String + 'a>);
type F2<'a> = (&'static str, Box<dyn Fn(&[u8], &[u8]) -> String + 'a>);

fn one_doc<'a>(c: &'a Case, kp: &'a [jsonb::keypath::KeyPath<'static>], keyset: &'a BTreeSet<&'a str>) -> Vec<F1<'a>> {
    let a = &c.args;
    let pt = c.pc.path.as_bytes();
    let path = move || jsonb::jsonpath::parse_json_path(pt);
    let mut v: Vec<F1<'a>> = vec![];
    v.push(("array_length", Box::new(|d| format!("{:?}", jsonb::array_length(d)))));
    v.push(("get_by_index", Box::new(move |d| ov(jsonb::get_by_index(d, c.index as usize)))));
    v.push(("get_by_name", Box::new(move |d| ov(jsonb::get_by_name(d, &a.name, false)))));
    v.push(("get_by_name(ignore_case)", Box::new(move |d| ov(jsonb::get_by_name(d, &a.name, true)))));
    v.push(("get_by_keypath", Box::new(move |d| ov(jsonb::get_by_keypath(d, kp.iter())))));
    v.push(("exists_all_keys", Box::new(move |d| format!("{}", jsonb::exists_all_keys(d, c.keys.iter().map(|k| k.as_bytes()))))));
    v.push(("exists_any_keys", Box::new(move |d| format!("{}", jsonb::exists_any_keys(d, c.keys.iter().map(|k| k.as_bytes()))))));
    v.push(("object_keys", Box::new(|d| ov(jsonb::object_keys(d)))));
    v.push(("object_each", Box::new(|d| format!("{:?}", jsonb::object_each(d).map(|v| v.into_iter().map(|(k, x)| (h(&k), h(&x))).collect::<Vec<_>>())))));
    v.push(("array_values", Box::new(|d| format!("{:?}", jsonb::array_values(d).map(|v| v.into_iter().map(|x| h(&x)).collect::<Vec<_>>())))));
    v.push(("type_of", Box::new(|d| format!("{:?}", jsonb::type_of(d).map_err(|_| ())))));
    v.push(("is_null/boolean/number/string/array/object", Box::new(|d| {
        format!("{:?}", (jsonb::is_null(d), jsonb::is_boolean(d), jsonb::is_number(d), jsonb::is_string(d), jsonb::is_array(d), jsonb::is_object(d)))
    })));
    v.push(("is_i64/u64/f64", Box::new(|d| format!("{:?}", (jsonb::is_i64(d), jsonb::is_u64(d), jsonb::is_f64(d))))));
    v.push(("as_null/as_bool", Box::new(|d| format!("{:?}", (jsonb::as_null(d), jsonb::as_bool(d))))));
    v.push(("as_number", Box::new(|d| num(jsonb::as_number(d)))));
    v.push(("as_i64/as_u64/as_f64", Box::new(|d| format!("{:?}", (jsonb::as_i64(d), jsonb::as_u64(d), jsonb::as_f64(d).map(|f| f.to_bits()))))));
    v.push(("as_str", Box::new(|d| format!("{:?}", jsonb::as_str(d)))));
    v.push(("to_bool", Box::new(|d| format!("{:?}", jsonb::to_bool(d).map_err(|_| ())))));
    v.push(("to_i64/to_u64/to_f64", Box::new(|d| {
        format!("{:?}", (jsonb::to_i64(d).map_err(|_| ()), jsonb::to_u64(d).map_err(|_| ()), jsonb::to_f64(d).map(|f| f.to_bits()).map_err(|_| ())))
    })));
    v.push(("to_str", Box::new(|d| format!("{:?}", jsonb::to_str(d).map_err(|_| ())))));
    v.push(("to_string", Box::new(|d| as_doc(&jsonb::to_string(d)))));
    v.push(("to_pretty_string", Box::new(|d| as_doc(&jsonb::to_pretty_string(d)))));
    v.push(("to_serde_json", Box::new(|d| format!("{:?}", jsonb::to_serde_json(d).map(|v| serde_repr(&v)).map_err(|_| ())))));
    v.push(("to_serde_json_object", Box::new(|d| {
        format!("{:?}", jsonb::to_serde_json_object(d).map(|o| o.map(|m| serde_repr(&serde_json::Value::Object(m)))).map_err(|_| ()))
    })));
    v.push(("convert_to_comparable", Box::new(|d| {
        let mut b = vec![];
        jsonb::convert_to_comparable(d, &mut b);
        h(&b)
    })));
    v.push(("traverse_check_string", Box::new(move |d| format!("{}", jsonb::traverse_check_string(d, |s| s == a.name.as_bytes() || s.len() > 3)))));
    v.push(("delete_by_name", Box::new(move |d| {
        let mut b = vec![];
        res_buf(jsonb::delete_by_name(d, &a.name, &mut b), &b)
    })));
    v.push(("delete_by_index", Box::new(move |d| {
        let mut b = vec![];
        res_buf(jsonb::delete_by_index(d, a.pos, &mut b), &b)
    })));
    v.push(("delete_by_keypath", Box::new(move |d| {
        let mut b = vec![];
        res_buf(jsonb::delete_by_keypath(d, kp.iter(), &mut b), &b)
    })));
    v.push(("array_distinct", Box::new(|d| {
        let mut b = vec![];
        res_buf(jsonb::array_distinct(d, &mut b), &b)
    })));
    v.push(("object_delete", Box::new(move |d| {
        let mut b = vec![];
        res_buf(jsonb::object_delete(d, keyset, &mut b), &b)
    })));
    v.push(("object_pick", Box::new(move |d| {
        let mut b = vec![];
        res_buf(jsonb::object_pick(d, keyset, &mut b), &b)
    })));
    v.push(("strip_nulls", Box::new(|d| {
        let mut b = vec![];
        res_buf(jsonb::strip_nulls(d, &mut b), &b)
    })));
    v.push(("parse_lazy_value -> to_vec/array_length/to_value", Box::new(|d| match jsonb::parse_lazy_value(d) {
        Ok(l) => format!("{} {:?} {}", h(&l.to_vec()), l.array_length(), h(&l.to_value().to_vec())),
        Err(_) => "Err".into(),
    })));
    // path functions (skipped when the parser rejects the generated path)
    if path().is_ok() {
        v.push(("path_exists", Box::new(move |d| format!("{:?}", jsonb::path_exists(d, path().unwrap()).map_err(|_| ())))));
        v.push(("path_match", Box::new(move |d| format!("{:?}", jsonb::path_match(d, path().unwrap()).map_err(|_| ())))));
        v.push(("get_by_path", Box::new(move |d| {
            let (mut b, mut o) = (vec![], vec![]);
            let r = jsonb::get_by_path(d, path().unwrap(), &mut b, &mut o);
            format!("{} {o:?}", res_buf(r, &b))
        })));
        v.push(("get_by_path_first", Box::new(move |d| {
            let (mut b, mut o) = (vec![], vec![]);
            let r = jsonb::get_by_path_first(d, path().unwrap(), &mut b, &mut o);
            format!("{} {o:?}", res_buf(r, &b))
        })));
        v.push(("get_by_path_array", Box::new(move |d| {
            let (mut b, mut o) = (vec![], vec![]);
            let r = jsonb::get_by_path_array(d, path().unwrap(), &mut b, &mut o);
            format!("{} {o:?}", res_buf(r, &b))
        })));
    }
    v
}

fn two_docs<'a>(c: &'a Case) -> Vec<F2<'a>> {
    let a = &c.args;
    let mut v: Vec<F2<'a>> = vec![];
    v.push(("contains", Box::new(|x, y| format!("{}", jsonb::contains(x, y)))));
    v.push(("compare", Box::new(|x, y| format!("{:?}", jsonb::compare(x, y).map_err(|_| ())))));
    v.push(("concat", Box::new(|x, y| {
        let mut b = vec![];
        res_buf(jsonb::concat(x, y, &mut b), &b)
    })));
    v.push(("array_insert", Box::new(move |x, y| {
        let mut b = vec![];
        res_buf(jsonb::array_insert(x, a.pos, y, &mut b), &b)
    })));
    v.push(("array_intersection", Box::new(|x, y| {
        let mut b = vec![];
        res_buf(jsonb::array_intersection(x, y, &mut b), &b)
    })));
    v.push(("array_except", Box::new(|x, y| {
        let mut b = vec![];
        res_buf(jsonb::array_except(x, y, &mut b), &b)
    })));
    v.push(("array_overlap", Box::new(|x, y| format!("{:?}", jsonb::array_overlap(x, y).map_err(|_| ())))));
    v.push(("object_insert", Box::new(move |x, y| {
        let mut b = vec![];
        res_buf(jsonb::object_insert(x, &a.name, y, a.update, &mut b), &b)
    })));
    v
}

/// structure with exact number classification
fn serde_repr(v: &serde_json::Value) -> String {
    match v {
        serde_json::Value::Number(n) => {
            if let Some(u) = n.as_u64() {
                format!("u{u}")
            } else if let Some(i) = n.as_i64() {
                format!("i{i}")
            } else {
                format!("f{:016x}", n.as_f64().unwrap().to_bits())
            }
        }
        serde_json::Value::Array(a) => format!("[{}]", a.iter().map(serde_repr).collect::<Vec<_>>().join(",")),
        serde_json::Value::Object(o) => {
            let mut items: Vec<String> = o.iter().map(|(k, v)| format!("{k:?}:{}", serde_repr(v))).collect();
            items.sort();
            format!("{{{}}}", items.join(","))
        }
        x => format!("{x:?}"),
    }
}

fn with_lead(mut t: Vec<u8>, lead: u8) -> Vec<u8> {
    match lead % 8 {
        1 => t.insert(0, b'\t'),
        2 => t.insert(0, b'\n'),
        3 => t.insert(0, b'\r'),
        _ => {}
    }
    t
}

pub fn check(c: &Case, obs: &mut Obs) -> Result<(), String> {
    // what the texts denote
    let m1 = c.args.doc.unsigned_norm();
    let m2 = c.args.doc2.unsigned_norm();
    let mp = c.pc.doc.unsigned_norm();
    if !m1.all_finite() || !m2.all_finite() || !mp.all_finite() {
        return Err("[harness-internal] C11 needs finite documents".into());
    }
    let t1 = with_lead(model_text(&m1, &c.sels), c.lead);
    let t2 = with_lead(model_text(&m2, &c.sels), c.lead / 8);
    let tp = with_lead(model_text(&mp, &c.sels), c.lead / 3);
    let (b1, b2, bp) = (m1.enc(), m2.enc(), mp.enc());
    for (t, m) in [(&t1, &m1), (&t2, &m2), (&tp, &mp)] {
        match ref_parse(t, Mode::Strict) {
            Ok(r) if r.ident_eq(&m.norm()) => {}
            other => return Err(format!("[harness-internal] writer/reference mismatch on {:?}: {other:?}", String::from_utf8_lossy(t))),
        }
    }
    let kp: Vec<_> = c.args.path.iter().map(|k: &KP| k.to_lib()).collect();
    let keyset: BTreeSet<&str> = c.args.keys.iter().map(|s| s.as_str()).collect();
    let show = |t: &[u8]| format!("{:?}", String::from_utf8_lossy(t));

    for (name, f) in one_doc(c, &kp, &keyset) {
        // path functions work on the path's own document
        let is_path_fn = name.starts_with("path_") || name.starts_with("get_by_path");
        let (t, b, m) = if is_path_fn { (&tp, &bp, &mp) } else { (&t1, &b1, &m1) };
        let rb = nopanic(name, || f(b))?;
        let rt = nopanic(&format!("{name} on text"), || f(t))?;
        if rb != rt {
            return Err(format!(
                "{name}: text and binary disagree\n  text   {} -> {rt}\n  binary {} -> {rb}\n  document {m:?}\n  args: name {:?}, pos {}, index {}, keypath {:?}, keys {:?}/{:?}, path {:?}",
                show(t),
                h(b),
                c.args.name,
                c.args.pos,
                c.index,
                c.args.path,
                c.keys,
                c.args.keys,
                c.pc.path
            ));
        }
    }
    for (name, f) in two_docs(c) {
        let rbb = nopanic(name, || f(&b1, &b2))?;
        for (x, y, what) in [(&t1, &b2, "text, binary"), (&b1, &t2, "binary, text"), (&t1, &t2, "text, text")] {
            let r = nopanic(&format!("{name} ({what})"), || f(x, y))?;
            if r != rbb {
                return Err(format!(
                    "{name}({what}) = {r}\n  all-binary call = {rbb}\n  first  {m1:?} as {}\n  second {m2:?} as {}\n  args: name {:?}, pos {}, update {}",
                    show(&t1),
                    show(&t2),
                    c.args.name,
                    c.args.pos,
                    c.args.update
                ));
            }
        }
    }
    let header_like = |t: &[u8]| matches!(t[0] & 0xE0, 0x20 | 0x40 | 0x80);
    obs.label_if(header_like(&t1) || header_like(&t2), "text-with-header-type-bits");
    obs.label_if(c.lead % 8 >= 1 && c.lead % 8 <= 3, "leading-whitespace");
    obs.nt_if((m1.depth() >= 1 && m2.depth() >= 1) || header_like(&t1));
    Ok(())
}

pub fn arb_case(p: TreeParams) -> BoxedStrategy<Case> {
    (super::c06::arb_case(p.finite()), arb_path_for(TreeParams::small().finite()), vec(any::<u16>(), 1..6), any::<u8>(), any::<u16>(), vec((any::<u16>(), any::<u16>(), arb_string()), 0..3))
        .prop_map(|(mut args, pc, sels, lead, isel, ksel)| {
            // numbers of 8-40 characters and header-looking strings now and then
            if isel % 11 == 0 {
                args.doc = M::Num(N::U(10_000_000 + isel as u64 * 7_919_000_003));
            } else if isel % 11 == 2 {
                // top-level numbers with a special reading
                let specials = [N::F(-0.0), N::U(0), N::F(1e16), N::U((1 << 53) + 1), N::I(i64::MIN), N::U(u64::MAX), N::F(0.1), N::F(-9223372036854775808.0), N::F(5e-324), N::I(-1)];
                args.doc = M::Num(specials[(isel / 11) as usize % specials.len()]);
            } else if isel % 11 == 1 {
                args.doc = M::Str(format!("abc{}", "Hello P@0 ".repeat((isel % 3) as usize + 1)));
            }
            if !args.doc2.all_finite() {
                args.doc2 = M::Arr(vec![M::Num(N::F(1.5))]);
            }
            if !args.new_val.all_finite() {
                args.new_val = M::Null;
            }
            let len = match &args.doc {
                M::Arr(a) => a.len(),
                _ => 1,
            };
            let index = derive_index(len, isel).max(0) as u64;
            let mut names = top_keys(&args.doc);
            if let M::Arr(a) = &args.doc {
                names.extend(a.iter().filter_map(|x| if let M::Str(s) = x { Some(s.clone()) } else { None }));
            }
            let keys = ksel.into_iter().map(|(s, m, e)| derive_name(&names, s, m, &e)).collect();
            Case { args, pc, sels, lead, index, keys }
        })
        .boxed()
}

fn run(ctx: &mut Ctx) {
    let cases = ctx.share(ctx.tier.pick(100_000, 1_000_000));
    let p = ctx.tier.pick(TreeParams::quick().with_big(1), TreeParams::thorough().with_big(1));
    run_strategy(ctx, "C11", "functions", cases, arb_case(p), check);
}
