//! C10 — decoding untrusted bytes never panics and never yields ill-formed strings.

use super::{replay_with, Prop, Sub};
use crate::engine::{guard, nopanic, pick, run_strategy, Ctx, Obs};
use crate::gen::*;
use crate::jser::{Bytes, Jser};
use crate::model::*;
use crate::textref::{model_text, ref_parse, Mode};
use proptest::collection::vec;
use proptest::prelude::*;

pub fn prop() -> Prop {
    Prop {
        id: "C10",
        title: "Decoding untrusted bytes never panics and never yields ill-formed strings",
        rule: "faults: valid encodings of generated trees hit by 1-4 faults (truncate at an offset, flip a bit, \
               substitute a byte biased to tag values, insert/delete a byte, rewrite a header count to 0/+-1/large, \
               rewrite an entry's type nibble to each of 0-7, rewrite an entry length to 0/+-1/to-end/beyond); \
               single: for every generated encoding up to 96 bytes (512 thorough) ALL truncation offsets and ALL \
               single-bit flips are enumerated; raw: arbitrary byte strings; fallback: generated strict JSON texts \
               not starting with a space (numbers of 1-40 digits, strings whose first bytes look like headers, \
               arrays, objects, literals); strings: every string/key length 1..=140 x every byte position x \
               three ill-formed byte values, as a value and as a key (enumerated); wide: objects of 15-40 \
               members with multi-byte keys, every single-bit flip in the header and entry-word area and \
               every key length rewritten by +-1..3 (enumerated); shaped: valid JSON texts of 0.6-2.3 MB beginning with a quote, \
               digit or minus sign whose bytes 4..8, read as a scalar entry word, carry each entry type and a length that \
               fits the rest of the text exactly or with 1 / 9 bytes to spare (enumerated; the texts a decoder that \
               recognises a scalar encoding by less than the exact header would misread). Oracle: from_slice and parse_jsonb never panic; every string and key \
               of an Ok value is well-formed UTF-8 (checked on the raw bytes); every proper prefix of a valid \
               encoding is Err for both; from_slice(text) equals the reference parser's value. Allocation size \
               is not judged. Non-trivial = mutated input of >= 8 bytes with a valid header type that differs \
               from the valid encoding, or a text of >= 8 bytes. Distinct = distinct input bytes.",
        assumptions: &["corrupted header counts may make the decoder reserve (not touch) large buffers; that is outside the property"],
        subs: vec![
            Sub { name: "faults", run: run_faults, replay: |j| replay_with::<Bytes>(j, check_bytes) },
            Sub { name: "single", run: run_single, replay: |j| replay_with::<M>(j, check_single) },
            Sub { name: "raw", run: run_raw, replay: |j| replay_with::<Bytes>(j, check_bytes) },
            Sub { name: "strings", run: run_strings, replay: |j| replay_with::<Bytes>(j, check_bytes) },
            Sub { name: "wide", run: run_wide, replay: |j| replay_with::<Bytes>(j, check_bytes) },
            Sub { name: "fallback", run: run_fallback, replay: |j| replay_with::<Bytes>(j, check_fallback) },
            Sub { name: "shaped", run: run_shaped, replay: |j| replay_with::<Shaped>(j, check_shaped) },
        ],
    }
}

fn utf8_ok(v: &jsonb::Value) -> Result<(), String> {
    let mut strs = vec![];
    value_string_bytes(v, &mut strs);
    for s in strs {
        if std::str::from_utf8(s).is_err() {
            return Err(format!("returned a value holding the ill-formed string bytes {}", hex(s)));
        }
    }
    Ok(())
}

/// no panic; Ok values hold only well-formed UTF-8. Returns (from_slice ok, parse_jsonb ok)
fn decode_both(b: &[u8]) -> Result<(bool, bool), String> {
    let mut oks = [false; 2];
    for (k, name) in ["from_slice", "parse_jsonb"].iter().enumerate() {
        let r = nopanic(&format!("{name}({})", hex(b)), || {
            let r = if k == 0 { jsonb::from_slice(b) } else { jsonb::parse_jsonb(b) };
            match r {
                Ok(v) => utf8_ok(&v).map(|_| true),
                Err(_) => Ok(false),
            }
        })?;
        oks[k] = r.map_err(|e| format!("{name}({}) {e}", hex(b)))?;
    }
    Ok((oks[0], oks[1]))
}

pub fn check_bytes(b: &Bytes, obs: &mut Obs) -> Result<(), String> {
    obs.ident = Some(hex(&b.0));
    let (a, c) = decode_both(&b.0)?;
    obs.label(if a { "from_slice-ok" } else { "from_slice-err" });
    obs.label_if(c, "parse_jsonb-ok");
    let valid_header = b.0.len() >= 8 && matches!(b.0[0] & 0xE0, 0x20 | 0x40 | 0x80);
    obs.nt_if(valid_header && check_canonical(&b.0).is_err());
    Ok(())
}

// ---- fault injection -----------------------------------------------------------------------

fn apply_fault(b: &mut Vec<u8>, kind: u8, at: u16, arg: u16) {
    if b.is_empty() {
        b.push(arg as u8);
        return;
    }
    let i = pick(at, b.len());
    let word_at = |b: &Vec<u8>, i: usize| -> Option<usize> {
        let w = i & !3;
        if w + 4 <= b.len() {
            Some(w)
        } else {
            None
        }
    };
    match kind % 9 {
        0 => b.truncate(i),
        1 => b[i] ^= 1 << (arg % 8),
        2 => {
            let tags = [0x00u8, 0x10, 0x20, 0x30, 0x40, 0x50, 0x60, 0x70, 0x80, 0xFF, 0xC0, 0x7F];
            b[i] = tags[pick(arg, tags.len())];
        }
        3 => b.insert(i, arg as u8),
        4 => {
            b.remove(i);
        }
        5 => {
            // rewrite a (supposed) header count
            if let Some(w) = word_at(b, i) {
                let h = u32::from_be_bytes(b[w..w + 4].try_into().unwrap());
                let n = h & 0x1FFF_FFFF;
                let nn = [0, n.wrapping_add(1), n.wrapping_sub(1), 0x00FF_FFFF, 7, 0x1FFF_FFFF][pick(arg, 6)] & 0x1FFF_FFFF;
                b[w..w + 4].copy_from_slice(&((h & 0xE000_0000) | nn).to_be_bytes());
            }
        }
        6 => {
            // rewrite an entry's type nibble
            if let Some(w) = word_at(b, i) {
                b[w] = (b[w] & 0x0F) | (((arg % 16) as u8) << 4);
            }
        }
        7 => {
            // rewrite an entry length
            if let Some(w) = word_at(b, i) {
                let e = u32::from_be_bytes(b[w..w + 4].try_into().unwrap());
                let l = e & 0x0FFF_FFFF;
                let rest = (b.len() - w) as u32;
                let nl = [0, l.wrapping_add(1), l.wrapping_sub(1), rest, rest + 1, 0x0FFF_FFFF][pick(arg, 6)] & 0x0FFF_FFFF;
                b[w..w + 4].copy_from_slice(&((e & 0xF000_0000) | nl).to_be_bytes());
            }
        }
        _ => {
            // make a string payload ill-formed
            b[i] = [0xFF, 0xC0, 0x80, 0xED, 0xF8][pick(arg, 5)];
        }
    }
}

fn run_faults(ctx: &mut Ctx) {
    let cases = ctx.share(ctx.tier.pick(600_000, 8_000_000));
    let p = ctx.tier.pick(TreeParams::small(), TreeParams::quick()).with_big(2);
    let strat = (arb_doc(p), vec((any::<u8>(), any::<u16>(), any::<u16>()), 1..5)).prop_map(|(m, faults)| {
        let mut b = m.enc();
        for (k, at, arg) in faults {
            apply_fault(&mut b, k, at, arg);
        }
        Bytes(b)
    });
    run_strategy(ctx, "C10", "faults", cases, strat, check_bytes);
}

/// all truncations and all single-bit flips of one valid encoding
pub fn check_single(m: &M, obs: &mut Obs) -> Result<(), String> {
    let b = m.enc();
    // the encoding itself decodes
    let (a, c) = decode_both(&b)?;
    if !a || !c {
        return Err(format!("a valid encoding is rejected: {}", hex(&b)));
    }
    for k in 0..b.len() {
        let (a, c) = decode_both(&b[..k])?;
        if a || c {
            return Err(format!(
                "the proper prefix of length {k} of the valid encoding {} is accepted (from_slice {a}, parse_jsonb {c})",
                hex(&b)
            ));
        }
    }
    let mut v = b.clone();
    for i in 0..b.len() {
        for bit in 0..8 {
            v[i] ^= 1 << bit;
            decode_both(&v)?;
            v[i] ^= 1 << bit;
        }
    }
    obs.nt_if(b.len() >= 8);
    Ok(())
}

fn run_single(ctx: &mut Ctx) {
    let cases = ctx.share(ctx.tier.pick(12_000, 150_000));
    let limit = ctx.tier.pick(96, 512);
    let p = ctx.tier.pick(TreeParams::small(), TreeParams::quick());
    let strat = arb_doc(p).prop_map(move |m| if m.enc().len() <= limit { m } else { M::Arr(vec![M::Str("é".into()), M::Num(N::I(-300))]) });
    // count the enumerated decodes
    let before = ctx.evals;
    run_strategy(ctx, "C10", "single", cases, strat, check_single);
    let _ = before;
    ctx.extra.insert(
        "single_fault_spaces".into(),
        serde_json::json!("for each 'single' case every truncation offset and every single-bit flip was decoded (9 x length decodes per case); exhaustive for that encoding"),
    );
}

fn run_raw(ctx: &mut Ctx) {
    let cases = ctx.share(ctx.tier.pick(400_000, 5_000_000));
    let strat = prop_oneof![
        2 => vec(any::<u8>(), 0..40).prop_map(Bytes),
        3 => (prop_oneof![Just(0x20u8), Just(0x40), Just(0x80)], 0u8..6, vec(any::<u8>(), 0..40)).prop_map(|(h, n, mut rest)| {
            let mut v = vec![h, 0, 0, n];
            v.append(&mut rest);
            Bytes(v)
        }),
        2 => (prop_oneof![Just(0x20u8), Just(0x40), Just(0x80)], 0u8..4, vec(prop_oneof![Just(0x00u8), Just(0x10), Just(0x20), Just(0x30), Just(0x40), Just(0x50), Just(0x60), Just(0x01), Just(0x02), Just(0x09), any::<u8>()], 0..40)).prop_map(|(h, n, mut rest)| {
            let mut v = vec![h, 0, 0, n];
            v.append(&mut rest);
            Bytes(v)
        }),
        // byte strings that are not a binary encoding and reach the text fallback: JSON tokens,
        // escapes (also the braced form) and hex groups in any order, half of them inside quotes
        2 => (vec(0..super::c02::TOKENS.len(), 0..10), 0u8..4).prop_map(|(ix, wrap)| {
            let mut v: Vec<u8> = vec![];
            match wrap {
                0 => v.push(b'"'),
                1 => v.extend_from_slice(b"{\"k\":\""),
                _ => {}
            }
            v.extend(ix.into_iter().flat_map(|i| super::c02::TOKENS[i].iter().copied()));
            match wrap {
                0 => v.push(b'"'),
                1 => v.extend_from_slice(b"\"}"),
                _ => {}
            }
            Bytes(v)
        }),
    ];
    run_strategy(ctx, "C10", "raw", cases, strat, check_bytes);
}

// ---- text fallback ------------------------------------------------------------------------------

pub fn check_fallback(t: &Bytes, obs: &mut Obs) -> Result<(), String> {
    let text = &t.0;
    obs.ident = Some(hex(text));
    if text.first() == Some(&b' ') {
        return Err("[harness-internal] fallback text starts with a space".into());
    }
    let want = ref_parse(text, Mode::Relaxed).map_err(|e| format!("[harness-internal] fallback text is not JSON: {e}"))?;
    let got = nopanic(&format!("from_slice({:?})", String::from_utf8_lossy(text)), || {
        jsonb::from_slice(text).map(|v| from_value(&v)).map_err(|e| format!("{e:?}"))
    })?;
    match got {
        Ok(g) if g.ident_eq(&want) => {}
        Ok(g) => return Err(format!("from_slice misreads the JSON text {:?} as {g:?}; it denotes {want:?}", String::from_utf8_lossy(text))),
        Err(e) => return Err(format!("from_slice rejects the JSON text {:?} ({e}); it denotes {want:?}", String::from_utf8_lossy(text))),
    }
    obs.nt_if(text.len() >= 8);
    obs.label_if(matches!(text[0] & 0xE0, 0x20 | 0x40 | 0x80), "first-byte-has-header-type-bits");
    Ok(())
}

fn run_fallback(ctx: &mut Ctx) {
    let cases = ctx.share(ctx.tier.pick(250_000, 3_000_000));
    let digits = |n: std::ops::Range<usize>| vec(0u8..10, n).prop_map(|v| v.into_iter().map(|d| (b'0' + d) as char).collect::<String>());
    let numtext = (any::<bool>(), 1u8..10, digits(0..40), proptest::option::of(digits(1..8))).prop_map(|(neg, d, rest, frac)| {
        let mut s = String::new();
        if neg {
            s.push('-');
        }
        s.push((b'0' + d) as char);
        s.push_str(&rest);
        if let Some(f) = frac {
            s.push('.');
            s.push_str(&f);
        }
        Bytes(s.into_bytes())
    });
    // strings whose early bytes are arbitrary printable ASCII (what a header/entry word would be read from)
    let strtext = vec(prop_oneof![0x20u8..0x7F, Just(b'0'), Just(b'@'), Just(b'P'), Just(b' ')], 0..16).prop_map(|v| {
        let mut s = vec![b'"'];
        for c in v {
            if c == b'"' || c == b'\\' {
                s.push(b'\\');
            }
            s.push(c);
        }
        s.push(b'"');
        Bytes(s)
    });
    let doctext = (arb_doc(TreeParams::small().finite()), vec(any::<u16>(), 1..5), 0u8..4).prop_map(|(m, sels, lead)| {
        let mut t = model_text(&m, &sels);
        // may start with tab / newline / CR, never with a space
        match lead {
            1 => t.insert(0, b'\t'),
            2 => t.insert(0, b'\n'),
            3 => t.insert(0, b'\r'),
            _ => {}
        }
        Bytes(t)
    });
    run_strategy(ctx, "C10", "fallback", cases, prop_oneof![3 => numtext, 3 => strtext, 4 => doctext], check_fallback);
}

// ---- JSON texts shaped like a scalar encoding --------------------------------------------------
//
// A JSON text that begins with a quote, a digit or a minus sign has the type bits of a scalar
// header in its first byte; its bytes 4..8 are then where the entry word of a scalar encoding
// would be. The texts built here are valid JSON whose bytes 4..8, read as an entry word, carry a
// usable type and a length that fits what follows them exactly (or with a few bytes to spare),
// i.e. the texts a decoder that recognises a scalar encoding by anything less than the exact
// header would misread. Text bytes are never NUL, so the smallest such text has 0x090909 + 8
// bytes; the descriptor, not the text, is the case.

crate::jser_struct! {
    pub struct Shaped {
        pub prefix: Bytes,
        pub fill: u8,
        pub extra: u32,
        pub close: Bytes,
    }
}

fn shaped_text(c: &Shaped) -> Result<Vec<u8>, String> {
    let p = &c.prefix.0;
    if p.len() != 8 {
        return Err("[harness-internal] shaped prefix must have 8 bytes".into());
    }
    let len = (((p[4] & 0x0F) as usize) << 24) | ((p[5] as usize) << 16) | ((p[6] as usize) << 8) | p[7] as usize;
    let total = 8 + len + c.extra as usize;
    if total > (40 << 20) || total < 8 + c.close.0.len() {
        return Err("[harness-internal] shaped text size out of range".into());
    }
    let mut t = Vec::with_capacity(total);
    t.extend_from_slice(p);
    t.resize(total - c.close.0.len(), c.fill);
    t.extend_from_slice(&c.close.0);
    Ok(t)
}

pub fn check_shaped(c: &Shaped, obs: &mut Obs) -> Result<(), String> {
    let text = shaped_text(c)?;
    obs.ident = Some(format!("{}/{}/{}/{}", hex(&c.prefix.0), c.fill, c.extra, hex(&c.close.0)));
    let want = ref_parse(&text, Mode::Relaxed).map_err(|e| format!("[harness-internal] shaped text is not JSON: {e}"))?;
    let head = String::from_utf8_lossy(&text[..8.min(text.len())]).into_owned();
    let what = format!("the {}-byte JSON text beginning {head:?} (filled with {:?}, closed by {:?})", text.len(), c.fill as char, String::from_utf8_lossy(&c.close.0));
    for (name, got) in [
        ("from_slice", nopanic("from_slice(shaped text)", || jsonb::from_slice(&text).map(|v| from_value(&v)).map_err(|e| format!("{e:?}")))?),
        ("parse_value", nopanic("parse_value(shaped text)", || jsonb::parse_value(&text).map(|v| from_value(&v)).map_err(|e| format!("{e:?}")))?),
    ] {
        match got {
            Ok(g) if g.ident_eq(&want) => {}
            Ok(g) => return Err(format!("{name} misreads {what} as {}", crate::engine::truncate(&format!("{g:?}"), 200))),
            Err(e) => return Err(format!("{name} rejects {what}: {e}")),
        }
    }
    obs.nt();
    obs.label(if c.extra == 0 { "entry-length-fits-exactly" } else { "entry-length-fits-with-room" });
    Ok(())
}

fn run_shaped(ctx: &mut Ctx) {
    let mut cases: Vec<Shaped> = vec![];
    let ws = [0x09u8, 0x0A, 0x0D, 0x20];
    let extras: &[u32] = &[0, 1, 9];
    // (a) a complete scalar in bytes 0..4, then white space: entry word 0x20 w w w (number type)
    for lead in [&b"\"ab\""[..], b"1234", b"-1.5", b"\"\" \t", b"true"] {
        if !matches!(lead[0] & 0xE0, 0x20) {
            continue;
        }
        for (i, w1) in ws.iter().enumerate() {
            for (j, w2) in ws.iter().enumerate() {
                // quick tier: a diagonal of the 64 white-space words; thorough: all of them
                let w3s: Vec<u8> = if ctx.tier.pick(true, false) { vec![ws[(i + j) % 4]] } else { ws.to_vec() };
                for w3 in w3s {
                    for &extra in extras {
                        let mut p = lead.to_vec();
                        p.extend_from_slice(&[0x20, *w1, *w2, w3]);
                        cases.push(Shaped { prefix: Bytes(p), fill: b' ', extra, close: Bytes(vec![]) });
                    }
                }
            }
        }
    }
    // (b) inside a string: byte 4 with a zero low nibble (every entry type), bytes 5..8 small printable
    let b4s: &[&[u8]] = &[b"c ", b"c0", b"c@", b"cP", b"c`", b"cp", "\u{c0}".as_bytes(), "\u{d0}".as_bytes(), "\u{e0}".as_bytes(), "\u{f0}".as_bytes(), "\u{410}".as_bytes()];
    for b34 in b4s {
        for tail in [&b"   "[..], b" !#", b"#  "] {
            for &extra in extras {
                let mut p = b"\"ab".to_vec();
                p.extend_from_slice(b34);
                p.extend_from_slice(tail);
                debug_assert_eq!(p.len(), 8);
                cases.push(Shaped { prefix: Bytes(p), fill: b'x', extra, close: Bytes(b"\"".to_vec()) });
            }
        }
    }
    // (c) inside a string that is the first element of an array / first key of an object: these start
    // with '[' / '{', which do not carry scalar type bits, and are the control group
    for &extra in &[0u32] {
        cases.push(Shaped { prefix: Bytes(b"[\"ab0   ".to_vec()), fill: b'x', extra, close: Bytes(b"\"]".to_vec()) });
        cases.push(Shaped { prefix: Bytes(b"{\"ab0   ".to_vec()), fill: b'x', extra, close: Bytes(b"\":1}".to_vec()) });
    }
    for (k, case) in cases.iter().enumerate() {
        if k % ctx.nworkers != ctx.worker || ctx.failure.is_some() {
            continue;
        }
        let mut obs = Obs::default();
        match guard(|| check_shaped(case, &mut obs)) {
            Ok(Ok(())) => ctx.record(|| case.to_j(), &obs),
            Ok(Err(m)) => ctx.fail("shaped", case.to_j(), m),
            Err(p) => ctx.fail("shaped", case.to_j(), format!("unexpected {}", p.describe())),
        }
    }
}

#[allow(dead_code)]
fn unused(_: &dyn Fn() -> Result<(), String>) {
    let _ = guard(|| ());
    let _ = M::Null.to_j();
}


/// one ill-formed byte at every position of strings and keys of every length up to 140
/// (vectorised or block-wise validation would have its seams here)
fn run_strings(ctx: &mut Ctx) {
    let mut k = 0usize;
    for len in 1usize..=140 {
        for pos in 0..len {
            k += 1;
            if k % ctx.nworkers != ctx.worker || ctx.failure.is_some() {
                continue;
            }
            for bad in [0xFFu8, 0x80, 0xC3] {
                let s = "a".repeat(len);
                for as_key in [false, true] {
                    let m = if as_key {
                        M::Obj([(s.clone(), M::Num(N::U(1))), ("zz".repeat(70), M::Null)].into_iter().collect())
                    } else {
                        M::Arr(vec![M::Str(s.clone()), M::Str("tail".into())])
                    };
                    let mut b = m.enc();
                    // the payload of the first string / key is the first run of `len` 'a's
                    let at = b.windows(len).position(|w| w.iter().all(|c| *c == b'a')).unwrap();
                    // 0xC3 is only ill-formed when it is not followed by a continuation byte: it never is here
                    b[at + pos] = bad;
                    let case = Bytes(b);
                    let mut obs = Obs::default();
                    match guard(|| check_bytes(&case, &mut obs)) {
                        Ok(Ok(())) => {
                            obs.nontrivial = true;
                            ctx.record(|| case.to_j(), &obs)
                        }
                        Ok(Err(m)) => ctx.fail("strings", case.to_j(), m),
                        Err(p) => ctx.fail("strings", case.to_j(), format!("unexpected {}", p.describe())),
                    }
                }
            }
        }
    }
}

/// wide objects with multi-byte keys: every bit flip in the header / entry words, and every
/// key length moved by a few bytes (so that a boundary lands inside a character)
fn run_wide(ctx: &mut Ctx) {
    let mut k = 0usize;
    let mut docs: Vec<(M, usize, usize)> = vec![]; // (document, entry-word area, number of length fields to rewrite)
    for n in [3usize, 7, 8, 9, 15, 16, 17, 31, 32, 33, 40] {
        // mixed values, all-string values, and arrays of strings (a tail that is one UTF-8 block)
        docs.push((M::Obj((0..n).map(|i| (format!("k{i:03}é"), if i % 3 == 0 { M::Str("é".into()) } else { M::Num(N::U(i as u64)) })).collect()), 4 + 8 * n, n));
        docs.push((M::Obj((0..n).map(|i| (if i % 2 == 0 { format!("ñ{i:02}") } else { format!("a{i:02}") }, M::Str(if i % 3 == 0 { "é".into() } else { format!("{i}") }))).collect()), 4 + 8 * n, 2 * n));
        docs.push((M::Arr((0..n).map(|i| M::Str(if i % 2 == 0 { "é".into() } else { "ab".into() })).collect()), 4 + 4 * n, n));
    }
    for (m, area, nlen) in docs {
        let n = nlen;
        let base = m.enc();
        let mut cases: Vec<Vec<u8>> = vec![];
        for i in 0..area {
            for bit in 0..8 {
                let mut b = base.clone();
                b[i] ^= 1 << bit;
                cases.push(b);
            }
        }
        for key in 0..n {
            for d in [-3i32, -2, -1, 1, 2, 3] {
                let mut b = base.clone();
                let w = 4 + 4 * key;
                let e = u32::from_be_bytes(b[w..w + 4].try_into().unwrap());
                let l = (e & 0x0FFF_FFFF) as i32 + d;
                if l >= 0 {
                    b[w..w + 4].copy_from_slice(&((e & 0xF000_0000) | l as u32).to_be_bytes());
                    cases.push(b.clone());
                    // compensate on the next key so that the key area keeps its total length
                    if key + 1 < n {
                        let w2 = w + 4;
                        let e2 = u32::from_be_bytes(b[w2..w2 + 4].try_into().unwrap());
                        let l2 = (e2 & 0x0FFF_FFFF) as i32 - d;
                        if l2 >= 0 {
                            b[w2..w2 + 4].copy_from_slice(&((e2 & 0xF000_0000) | l2 as u32).to_be_bytes());
                            cases.push(b);
                        }
                    }
                }
            }
        }
        for b in cases {
            k += 1;
            if k % ctx.nworkers != ctx.worker || ctx.failure.is_some() {
                continue;
            }
            let case = Bytes(b);
            let mut obs = Obs::default();
            match guard(|| check_bytes(&case, &mut obs)) {
                Ok(Ok(())) => ctx.record(|| case.to_j(), &obs),
                Ok(Err(m)) => ctx.fail("wide", case.to_j(), m),
                Err(p) => ctx.fail("wide", case.to_j(), format!("unexpected {}", p.describe())),
            }
        }
    }
}
