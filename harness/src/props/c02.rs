//! C02 — the JSON text parser accepts exactly the documented language, with standard meaning.

use super::{replay_with, Prop, Sub};
use crate::engine::{nopanic, pick, run_strategy, Ctx, Obs};
use crate::jser::Bytes;
use crate::model::*;
use crate::textref::*;
use proptest::collection::vec;
use proptest::prelude::*;

pub fn prop() -> Prop {
    Prop {
        id: "C02",
        title: "JSON text parser accepts exactly the documented language, with standard meaning",
        rule: "wellformed: spelled documents (every escape form for every character, both bracket forms, \
               surrogate pairs and deliberately unpaired halves, raw controls, every whitespace form incl. the \
               escaped ones between all tokens, duplicate keys spelled differently, number literals of every \
               grammar shape incl. u64/i64 edges, halfway and overflow cases) rendered to bytes; the parsed \
               value must equal the value known by construction and the reference parser's. corrupt: one \
               byte/token of such a text deleted, duplicated, replaced, or the text truncated. soup: sequences \
               over a JSON token alphabet and raw bytes. codepoints (enumerated): every BMP code unit as a raw \
               character and as \\uXXXX / \\u{XXXX} escape in a value and in a key, every surrogate code unit \
               alone, and surrogate pairs over the ends and a stride of both halves. For corrupt and soup the oracle is differential: \
               parse_value is Ok iff the relaxed reference parser accepts, values equal, never a panic. \
               Non-trivial = accepted document containing an escape, a non-trivial number or a relaxation, or a \
               rejected input within one token of a well-formed one. Distinct = distinct input bytes.",
        assumptions: &[
            "textref.rs (RFC 8259 + exactly the relaxations C02 names) is the documented language",
            "Rust std's f64 parser is correctly rounded",
        ],
        subs: vec![
            Sub { name: "wellformed", run: run_wellformed, replay: |j| replay_with::<WfCase>(j, check_wellformed) },
            Sub { name: "corrupt", run: run_corrupt, replay: |j| replay_with::<Bytes>(j, check_bytes_near) },
            Sub { name: "soup", run: run_soup, replay: |j| replay_with::<Bytes>(j, check_bytes) },
            Sub { name: "codepoints", run: run_codepoints, replay: |j| replay_with::<Bytes>(j, check_bytes) },
            Sub { name: "bigtext", run: run_bigtext, replay: |j| replay_with::<(M, Vec<u16>)>(j, check_bigtext) },
        ],
    }
}

crate::jser_struct! {
    pub struct WfCase {
        pub doc: TDoc,
        pub ws: Vec<u16>,
        pub relaxed_ws: bool,
    }
}

fn lib_parse(b: &[u8]) -> Result<Result<M, String>, String> {
    nopanic("parse_value", || jsonb::parse_value(b).map(|v| from_value(&v)).map_err(|e| format!("{e:?}")))
}

fn show(b: &[u8]) -> String {
    format!("{:?} ({})", String::from_utf8_lossy(b), hex(b))
}

/// the differential oracle on arbitrary bytes
fn differential(b: &[u8], obs: &mut Obs, near: bool) -> Result<(), String> {
    if bracket_depth(b) > 200 {
        obs.label("skipped-deep-nesting");
        return Ok(());
    }
    let want = ref_parse(b, Mode::Relaxed);
    let got = lib_parse(b).map_err(|e| format!("{e} on input {}", show(b)))?;
    match (&got, &want) {
        (Ok(g), Ok(w)) => {
            if !g.ident_eq(w) {
                return Err(format!("parse_value({}) = {g:?}\n  but the text denotes {w:?}", show(b)));
            }
            obs.label("accepted");
        }
        (Err(_), Err(_)) => {
            obs.label("rejected");
            obs.nt_if(near);
        }
        (Ok(g), Err(e)) => {
            return Err(format!("parse_value accepted {} as {g:?}, but it is outside the documented language ({e})", show(b)))
        }
        (Err(e), Ok(w)) => return Err(format!("parse_value rejected {} with {e}, but it is a document denoting {w:?}", show(b))),
    }
    lazy_agrees(b, &got)
}

fn lazy_agrees(b: &[u8], got: &Result<M, String>) -> Result<(), String> {
    // the text branch of parse_lazy_value is taken unless the first byte is one of the
    // three container-header prefixes
    if matches!(b.first(), Some(0x20 | 0x40 | 0x80)) {
        return Ok(());
    }
    let lz = nopanic("parse_lazy_value", || {
        jsonb::parse_lazy_value(b).map(|l| from_value(&l.to_value())).map_err(|e| format!("{e:?}"))
    })?;
    match (&lz, got) {
        (Ok(a), Ok(b2)) if a.ident_eq(b2) => Ok(()),
        (Err(_), Err(_)) => Ok(()),
        _ => Err(format!("parse_lazy_value({}) = {lz:?} but parse_value = {got:?}", show(b))),
    }
}

pub fn check_wellformed(c: &WfCase, obs: &mut Obs) -> Result<(), String> {
    let text = render(&c.doc, &c.ws, c.relaxed_ws, true);
    let want = meaning(&c.doc);
    // the reference parser must agree with the by-construction meaning (guards the harness)
    match ref_parse(&text, Mode::Relaxed) {
        Ok(r) if r.ident_eq(&want) => {}
        other => return Err(format!("[harness-internal] reference parser disagrees with the constructed meaning on {}: {other:?} vs {want:?}", show(&text))),
    }
    let relax = uses_relaxation(&c.doc) || (c.relaxed_ws && text.iter().any(|b| *b == 0x0C || *b == b'\\'));
    if !relax {
        // a strict RFC 8259 document: the strict reference must accept it as well
        if ref_parse(&text, Mode::Strict).is_err() {
            return Err(format!("[harness-internal] strict reference rejects a strict rendering {}", show(&text)));
        }
    }
    obs.label(if relax { "uses-relaxation" } else { "strict-rfc8259" });
    obs.label_if(has_escape(&c.doc), "has-escape");
    obs.label_if(has_interesting_number(&c.doc), "nontrivial-number");
    obs.nt_if(relax || has_escape(&c.doc) || has_interesting_number(&c.doc));
    obs.ident = Some(hex(&text));
    let got = lib_parse(&text).map_err(|e| format!("{e} on input {}", show(&text)))?;
    match &got {
        Ok(g) if g.ident_eq(&want) => {}
        Ok(g) => return Err(format!("parse_value({}) = {g:?}\n  but the text denotes {want:?}", show(&text))),
        Err(e) => return Err(format!("parse_value rejected the document {} with {e}; it denotes {want:?}", show(&text))),
    }
    lazy_agrees(&text, &got)
}

fn arb_wf() -> BoxedStrategy<WfCase> {
    (any::<bool>(), vec(any::<u16>(), 0..6), any::<bool>())
        .prop_flat_map(|(relaxed, ws, relaxed_ws)| {
            arb_tdoc(relaxed, 4).prop_map(move |doc| WfCase { doc, ws: ws.clone(), relaxed_ws: relaxed && relaxed_ws })
        })
        .boxed()
}

fn run_wellformed(ctx: &mut Ctx) {
    let cases = ctx.share(ctx.tier.pick(300_000, 4_000_000));
    run_strategy(ctx, "C02", "wellformed", cases, arb_wf(), check_wellformed);
}

// ---- single-token corruption ---------------------------------------------------------

pub const TOKENS: &[&[u8]] = &[
    b"{", b"}", b"[", b"]", b",", b":", b"\"", b"\\", b"\\u", b"\\u{", b"}", b"0", b"1", b"9", b"-", b"+", b".", b"e", b"E",
    b"true", b"false", b"null", b" ", b"\t", b"\n", b"\r", b"\x0C", b"\x0B", b"\\n", b"\\t", b"\\r", b"\\x0C", b"\\x0c", b"\\f",
    b"\"a\"", b"\"\"", b"D800", b"DC00", b"d83d", b"dc8e", b"00e9", b"\xC3", b"\xA9", b"\xF0\x9F\x92\x8E", b"\xFF", b"\x00",
    b"\\\"", b"\\\\", b"\\/", b"\\b", b"\\q", b"\\u0041", b"\\uD800", b"\\uDC00", b"\\u{0041}", b"\\u{0041", b"\\u{D83D}\\u{DE00}", b"1e5", b"-0", b"1.5", b"01",
    b"a", b"/", b"nul", b"tru", b"NaN", b"Infinity", b"'", b"//", b"/*", b"\xEF\xBB\xBF",
];

fn corrupt(text: &[u8], at: u16, op: u8, tok: u16) -> Vec<u8> {
    let mut t = text.to_vec();
    if t.is_empty() {
        return TOKENS[pick(tok, TOKENS.len())].to_vec();
    }
    let i = pick(at, t.len());
    match op % 7 {
        0 => {
            t.remove(i);
        }
        1 => {
            let c = t[i];
            t.insert(i, c);
        }
        2 => {
            let tk = TOKENS[pick(tok, TOKENS.len())];
            t.splice(i..i + 1, tk.iter().copied());
        }
        3 => {
            let tk = TOKENS[pick(tok, TOKENS.len())];
            t.splice(i..i, tk.iter().copied());
        }
        4 => t.truncate(i),
        5 => {
            t[i] ^= 1 << (tok % 8);
        }
        _ => {
            let j = pick(tok, t.len());
            t.swap(i, j);
        }
    }
    t
}

pub fn check_bytes_near(b: &Bytes, obs: &mut Obs) -> Result<(), String> {
    obs.ident = Some(hex(&b.0));
    differential(&b.0, obs, true)
}
pub fn check_bytes(b: &Bytes, obs: &mut Obs) -> Result<(), String> {
    obs.ident = Some(hex(&b.0));
    let r = differential(&b.0, obs, false);
    // an accepted soup is non-trivial when it needed more than a bare literal
    obs.nt_if(b.0.len() >= 3);
    r
}

fn run_corrupt(ctx: &mut Ctx) {
    let cases = ctx.share(ctx.tier.pick(300_000, 4_000_000));
    let strat = (arb_wf(), any::<u16>(), any::<u8>(), any::<u16>()).prop_map(|(wf, at, op, tok)| {
        let text = render(&wf.doc, &wf.ws, wf.relaxed_ws, true);
        Bytes(corrupt(&text, at, op, tok))
    });
    run_strategy(ctx, "C02", "corrupt", cases, strat, check_bytes_near);
}

fn run_soup(ctx: &mut Ctx) {
    let cases = ctx.share(ctx.tier.pick(300_000, 4_000_000));
    let soup = vec(0..TOKENS.len(), 0..14).prop_map(|ix| Bytes(ix.into_iter().flat_map(|i| TOKENS[i].iter().copied()).collect()));
    let raw = vec(any::<u8>(), 0..24).prop_map(Bytes);
    // a string literal body made of escape fragments: the scanner's fixed-width skips
    let strsoup = vec(0..TOKENS.len(), 0..8).prop_map(|ix| {
        let mut v = vec![b'"'];
        v.extend(ix.into_iter().flat_map(|i| TOKENS[i].iter().copied()));
        v.push(b'"');
        Bytes(v)
    });
    run_strategy(ctx, "C02", "soup", cases, prop_oneof![5 => soup, 3 => strsoup, 2 => raw], check_bytes);
}


/// enumerated: every 16-bit code unit raw and escaped, lone surrogates, pairs at the range ends
fn run_codepoints(ctx: &mut Ctx) {
    let stride = ctx.tier.pick(37u32, 5u32);
    let mut texts: Vec<Vec<u8>> = vec![];
    let mut k = 0u32;
    let mine = |k: &mut u32| {
        *k += 1;
        (*k as usize) % ctx.nworkers == ctx.worker
    };
    for u in 0u32..=0xFFFF {
        if !mine(&mut k) {
            continue;
        }
        let (lx, ux) = (format!("{u:04x}"), format!("{u:04X}"));
        texts.push(format!("\"a\\u{lx}b\"").into_bytes());
        texts.push(format!("[\"\\u{ux}\",1]").into_bytes());
        texts.push(format!("{{\"\\u{{{ux}}}\":\"\\u{lx}\\u{lx}\"}}").into_bytes());
        if let Some(c) = char::from_u32(u) {
            if c != '"' && c != '\\' {
                texts.push(format!("\"x{c}y\"").into_bytes());
                texts.push(format!("{{\"{c}\":[\"{c}{c}\"]}}").into_bytes());
            }
        }
    }
    // surrogate pairs: ends of both ranges and a stride through them, both bracket forms
    let his: Vec<u32> = (0xD800u32..=0xDBFF).filter(|h| *h <= 0xD802 || *h >= 0xDBFD || h % stride == 0).collect();
    let los: Vec<u32> = (0xDC00u32..=0xDFFF).filter(|l| *l <= 0xDC02 || *l >= 0xDFFD || l % stride == 0).collect();
    for h in &his {
        for l in &los {
            if !mine(&mut k) {
                continue;
            }
            texts.push(format!("\"\\u{h:04X}\\u{l:04x}\"").into_bytes());
            texts.push(format!("[\"\\u{{{h:04x}}}\\u{{{l:04X}}}z\"]").into_bytes());
            texts.push(format!("\"\\u{h:04x}\\u{{{l:04x}}}\"").into_bytes());
            // reversed (low then high): two lone halves
            texts.push(format!("\"\\u{l:04x}\\u{h:04x}\"").into_bytes());
        }
    }
    if ctx.worker == 0 {
        let bad = ['G', 'g', 'Z', 'z', ' ', '"', '\\', '/', ':', '@', '`', '{', '}', '\u{e9}'];
        let escapes = ["0041", "D83D", "DC8E", "d800", "dfff", "00e9"];
        for e in escapes {
            for pos in 0..4 {
                for b in bad {
                    let mut h: Vec<char> = e.chars().collect();
                    h[pos] = b;
                    let h: String = h.into_iter().collect();
                    texts.push(format!("\"\\u{h}\"").into_bytes());
                    texts.push(format!("\"\\u{{{h}}}\"").into_bytes());
                    texts.push(format!("\"\\uD83D\\u{h}\"").into_bytes());
                    texts.push(format!("\"\\u{{D83D}}\\u{{{h}}}x\"").into_bytes());
                    texts.push(format!("[\"\\u{h}\\uDC8E\"]").into_bytes());
                }
            }
        }
    }
    for t in texts {
        if ctx.failure.is_some() {
            break;
        }
        let case = Bytes(t);
        let mut obs = Obs::default();
        match crate::engine::guard(|| check_bytes(&case, &mut obs)) {
            Ok(Ok(())) => {
                obs.nontrivial = true;
                ctx.record(|| crate::jser::Jser::to_j(&case), &obs)
            }
            Ok(Err(m)) => ctx.fail("codepoints", crate::jser::Jser::to_j(&case), m),
            Err(p) => ctx.fail("codepoints", crate::jser::Jser::to_j(&case), format!("unexpected {}", p.describe())),
        }
    }
}


/// large documents as text: thousands of members, empty containers, long strings, deep nesting
pub fn check_bigtext(c: &(M, Vec<u16>), obs: &mut Obs) -> Result<(), String> {
    let want = c.0.unsigned_norm().norm();
    let text = crate::textref::model_text(&c.0, &c.1);
    obs.nt();
    let got = lib_parse(&text).map_err(|e| format!("{e} on a {}-byte text", text.len()))?;
    match got {
        Ok(g) if g.ident_eq(&want) => Ok(()),
        Ok(g) => Err(format!("parse_value of a {}-byte rendering of a large document gives a different value (sizes {} vs {})", text.len(), g.size(), want.size())),
        Err(e) => Err(format!("parse_value rejected a {}-byte well-formed document ({} nodes, depth {}): {e}", text.len(), want.size(), want.depth())),
    }
}

fn run_bigtext(ctx: &mut Ctx) {
    let cases = ctx.share(ctx.tier.pick(400, 6_000));
    let strat = (any::<u8>(), any::<u8>(), any::<u16>(), 0u8..4, vec(any::<u16>(), 1..4)).prop_map(|(k, s, seed, wrap, sels)| {
        let big = crate::gen::big_doc(k, s, seed, 2);
        let m = match wrap {
            0 => M::Arr(vec![M::Null, big, M::Arr(vec![])]),
            1 => M::Obj([("a".to_string(), M::Arr(vec![])), ("b".to_string(), big)].into_iter().collect()),
            _ => big,
        };
        (m, sels)
    });
    run_strategy(ctx, "C02", "bigtext", cases, strat, check_bigtext);
}
