//! C17 — functions that write into a caller's buffer only append to it.

use super::{replay_with, Prop, Sub};
use crate::engine::{nopanic, pick, run_strategy, Ctx, Obs};
use crate::gen::*;
use crate::jser::Bytes;
use crate::model::*;
use crate::pathmodel::{arb_path_for, PathCase};
use proptest::collection::vec;
use proptest::prelude::*;
use std::collections::BTreeSet;

pub fn prop() -> Prop {
    Prop {
        id: "C17",
        title: "Functions that write into a caller's buffer only append to it",
        rule: "for every buffer-writing function (Value::write_to_vec, LazyValue::write_to_vec, build_array, \
               build_object, concat, delete_by_name/index/keypath, array_insert/distinct/intersection/except, \
               object_insert/delete/pick, strip_nulls, get_by_path/_first/_array, Selector::select in four modes, \
               convert_to_comparable): valid inputs as in C06/C08, a prior buffer content (empty, random bytes, \
               header-like bytes) and a generated batch of 1-8 calls appended into the same data and offsets \
               buffers. Metamorphic oracle: the buffer after each call is the buffer before it followed by what \
               the call writes into an empty buffer; offsets likewise, shifted by the prior length; an erroring \
               call leaves both untouched. Non-trivial = non-empty prefix and a batch of >= 3 calls of which one \
               wrote a container (back-patched header/entries).",
        assumptions: &["a function's output into an empty buffer is its reference output (its correctness is C06/C08's subject)"],
        subs: vec![Sub { name: "batches", run, replay: |j| replay_with::<Case>(j, check) }],
    }
}

crate::jser_struct! {
    pub struct Case {
        pub args: super::c06::Case,
        pub path: PathCase,
        pub path2: PathCase,
        pub prefix: Bytes,
        pub offsets_prefix: Vec<u64>,
        pub batch: Vec<u8>,
    }
}

const NOPS: usize = 29;

type Call<'a> = Box<dyn Fn(&mut Vec<u8>, &mut Vec<u64>) -> Result<(), jsonb::Error> + 'a>;

fn calls<'a>(c: &'a Case, enc: &'a Enc) -> Vec<(&'static str, Call<'a>)> {
    use jsonb::jsonpath::{Mode, Selector};
    let a = &c.args;
    let mut v: Vec<(&'static str, Call<'a>)> = vec![];
    v.push(("Value::write_to_vec", Box::new(move |b, _| {
        to_value(&a.doc).write_to_vec(b);
        Ok(())
    })));
    v.push(("LazyValue::write_to_vec(raw)", Box::new(move |b, _| {
        jsonb::parse_lazy_value(&enc.doc)?.write_to_vec(b);
        Ok(())
    })));
    v.push(("LazyValue::write_to_vec(value)", Box::new(move |b, _| {
        jsonb::LazyValue::Value(to_value(&a.doc2)).write_to_vec(b);
        Ok(())
    })));
    v.push(("build_array", Box::new(move |b, _| {
        if a.update {
            // an iterator whose size_hint is not exact
            jsonb::build_array(enc.parts.iter().map(|x| x.as_slice()).filter(|x| !x.is_empty()), b)
        } else {
            jsonb::build_array(enc.parts.iter().map(|x| x.as_slice()), b)
        }
    })));
    v.push(("build_object", Box::new(move |b, _| {
        if a.update {
            jsonb::build_object(enc.obj_parts.iter().map(|(k, x)| (k.as_str(), x.as_slice())).filter(|(_, x)| !x.is_empty()), b)
        } else {
            jsonb::build_object(enc.obj_parts.iter().map(|(k, x)| (k.as_str(), x.as_slice())), b)
        }
    })));
    v.push(("concat", Box::new(move |b, _| jsonb::concat(&enc.doc, &enc.doc2, b))));
    v.push(("delete_by_name", Box::new(move |b, _| jsonb::delete_by_name(&enc.doc, &a.name, b))));
    v.push(("delete_by_index", Box::new(move |b, _| jsonb::delete_by_index(&enc.doc, a.pos, b))));
    v.push(("delete_by_keypath", Box::new(move |b, _| jsonb::delete_by_keypath(&enc.doc, enc.kp.iter(), b))));
    v.push(("array_insert", Box::new(move |b, _| jsonb::array_insert(&enc.doc, a.pos, &enc.new_val, b))));
    v.push(("array_distinct", Box::new(move |b, _| jsonb::array_distinct(&enc.doc, b))));
    v.push(("array_intersection", Box::new(move |b, _| jsonb::array_intersection(&enc.doc, &enc.doc2, b))));
    v.push(("array_except", Box::new(move |b, _| jsonb::array_except(&enc.doc, &enc.doc2, b))));
    v.push(("object_insert", Box::new(move |b, _| jsonb::object_insert(&enc.doc, &a.name, &enc.new_val, a.update, b))));
    v.push(("object_delete", Box::new(move |b, _| {
        let ks: BTreeSet<&str> = a.keys.iter().map(|s| s.as_str()).collect();
        jsonb::object_delete(&enc.doc, &ks, b)
    })));
    v.push(("object_pick", Box::new(move |b, _| {
        let ks: BTreeSet<&str> = a.keys.iter().map(|s| s.as_str()).collect();
        jsonb::object_pick(&enc.doc, &ks, b)
    })));
    v.push(("strip_nulls", Box::new(move |b, _| jsonb::strip_nulls(&enc.doc, b))));
    v.push(("convert_to_comparable", Box::new(move |b, _| {
        jsonb::convert_to_comparable(&enc.doc, b);
        Ok(())
    })));
    let parse = move || jsonb::jsonpath::parse_json_path(enc.path_text.as_bytes());
    v.push(("get_by_path", Box::new(move |b, o| jsonb::get_by_path(&enc.pdoc, parse()?, b, o))));
    v.push(("get_by_path_first", Box::new(move |b, o| jsonb::get_by_path_first(&enc.pdoc, parse()?, b, o))));
    v.push(("get_by_path_array", Box::new(move |b, o| jsonb::get_by_path_array(&enc.pdoc, parse()?, b, o))));
    for (name, mode) in [
        ("Selector::select(All)", Mode::All),
        ("Selector::select(First)", Mode::First),
        ("Selector::select(Array)", Mode::Array),
        ("Selector::select(Mixed)", Mode::Mixed),
    ] {
        v.push((name, Box::new(move |b, o| Selector::new(parse()?, mode.clone()).select(&enc.pdoc, b, o))));
    }
    // the same entry points on a second (document, path): a predicate result followed by an
    // array-shaped one, or the reverse, in one pair of buffers
    let parse2 = move || jsonb::jsonpath::parse_json_path(enc.path2_text.as_bytes());
    v.push(("get_by_path(2)", Box::new(move |b, o| jsonb::get_by_path(&enc.pdoc2, parse2()?, b, o))));
    v.push(("get_by_path_array(2)", Box::new(move |b, o| jsonb::get_by_path_array(&enc.pdoc2, parse2()?, b, o))));
    v.push(("Selector::select(All)(2)", Box::new(move |b, o| Selector::new(parse2()?, Mode::All).select(&enc.pdoc2, b, o))));
    v.push(("Selector::select(Mixed)(2)", Box::new(move |b, o| Selector::new(parse2()?, Mode::Mixed).select(&enc.pdoc2, b, o))));
    assert_eq!(v.len(), NOPS);
    v
}

struct Enc {
    doc: Vec<u8>,
    doc2: Vec<u8>,
    new_val: Vec<u8>,
    parts: Vec<Vec<u8>>,
    obj_parts: Vec<(String, Vec<u8>)>,
    kp: Vec<jsonb::keypath::KeyPath<'static>>,
    pdoc: Vec<u8>,
    path_text: String,
    pdoc2: Vec<u8>,
    path2_text: String,
}

pub fn check(c: &Case, obs: &mut Obs) -> Result<(), String> {
    let a = &c.args;
    let enc = Enc {
        doc: a.doc.enc(),
        doc2: a.doc2.enc(),
        new_val: a.new_val.enc(),
        parts: a.parts.iter().map(|x| x.enc()).collect(),
        obj_parts: a.obj_parts.iter().map(|(k, v)| (k.clone(), v.enc())).collect(),
        kp: a.path.iter().map(|k| k.to_lib()).collect(),
        pdoc: c.path.doc.enc(),
        path_text: c.path.path.clone(),
        pdoc2: c.path2.doc.enc(),
        path2_text: c.path2.path.clone(),
    };
    let cs = calls(c, &enc);
    let mut data = c.prefix.0.clone();
    let mut offs = c.offsets_prefix.clone();
    let mut wrote_container = false;
    let mut ok_calls = 0;
    for (step, sel) in c.batch.iter().enumerate() {
        let (name, f) = &cs[*sel as usize % NOPS];
        // reference: the same call into empty buffers
        let (mut d0, mut o0) = (Vec::new(), Vec::new());
        let r0 = nopanic(name, || f(&mut d0, &mut o0))?;
        let (before_d, before_o) = (data.clone(), offs.clone());
        let r1 = nopanic(name, || f(&mut data, &mut offs))?;
        if r0.is_ok() != r1.is_ok() {
            return Err(format!("step {step} {name}: {r0:?} into an empty buffer but {r1:?} into a buffer holding {} bytes", before_d.len()));
        }
        match r1 {
            Ok(()) => {
                let mut want = before_d.clone();
                want.extend_from_slice(&d0);
                if data != want {
                    let keeps_prefix = data.len() >= before_d.len() && data[..before_d.len()] == before_d[..];
                    return Err(format!(
                        "step {step} {name}: with {} prior bytes the buffer became {}\n  expected prior bytes followed by {} (what the call writes into an empty buffer); prior bytes {}",
                        before_d.len(),
                        hex(&data),
                        hex(&d0),
                        if keeps_prefix { "kept" } else { "MODIFIED" }
                    ));
                }
                let mut wo = before_o.clone();
                wo.extend(o0.iter().map(|x| x + before_d.len() as u64));
                if offs != wo {
                    return Err(format!(
                        "step {step} {name}: offsets became {offs:?}, expected {wo:?} (prior offsets, then the empty-buffer offsets {o0:?} shifted by {})",
                        before_d.len()
                    ));
                }
                ok_calls += 1;
                wrote_container |= d0.first().map(|b| *b == 0x80 || *b == 0x40).unwrap_or(false);
                obs.label_if(!o0.is_empty(), "call-with-offsets");
            }
            Err(e) => {
                if data != before_d || offs != before_o {
                    // only documented errors promise an untouched buffer
                    let documented = matches!(
                        e,
                        jsonb::Error::InvalidJsonType | jsonb::Error::InvalidObject | jsonb::Error::ObjectDuplicateKey | jsonb::Error::InvalidJsonPathPredicate
                    );
                    if documented {
                        return Err(format!("step {step} {name}: returned {e:?} but changed the buffer from {} to {}", hex(&before_d), hex(&data)));
                    }
                    obs.label("undocumented-error-modified-buffer");
                    data = before_d;
                    offs = before_o;
                }
                obs.label("erroring-call");
            }
        }
    }
    obs.label_if(!c.prefix.0.is_empty(), "non-empty-prefix");
    obs.nt_if(!c.prefix.0.is_empty() && ok_calls >= 3 && wrote_container);
    Ok(())
}

pub fn arb_case(p: TreeParams) -> BoxedStrategy<Case> {
    let prefix = prop_oneof![
        2 => Just(vec![]),
        3 => vec(any::<u8>(), 1..40),
        2 => (vec(any::<u16>(), 1..4)).prop_map(|v| {
            let heads: [&[u8]; 5] = [&[0x80, 0, 0, 3], &[0x40, 0, 0, 1], &[0x20, 0, 0, 0], &[0x50, 0, 0, 9], &[0x10, 0, 0, 2]];
            v.into_iter().flat_map(|i| heads[pick(i, heads.len())].iter().copied()).collect()
        }),
    ];
    (
        super::c06::arb_case(p),
        arb_path_for(TreeParams::small()),
        arb_path_for(TreeParams::small()),
        prefix,
        vec(0u64..100, 0..3),
        vec(0u8..NOPS as u8, 1..9),
    )
        .prop_map(|(args, path, path2, prefix, offsets_prefix, batch)| Case { args, path, path2, prefix: Bytes(prefix), offsets_prefix, batch })
        .boxed()
}

fn run(ctx: &mut Ctx) {
    let cases = ctx.share(ctx.tier.pick(250_000, 2_500_000));
    let p = ctx.tier.pick(TreeParams::small(), TreeParams::quick()).with_big(2);
    run_strategy(ctx, "C17", "batches", cases, arb_case(p), check);
}
