//! C19 — conversion to and from serde_json preserves the document.

use super::{replay_with, Prop, Sub};
use crate::engine::{nopanic, run_strategy, Ctx, Obs};
use crate::gen::*;
use crate::model::*;
use crate::textref::{model_text, ref_parse, Mode};
use proptest::collection::vec;
use proptest::prelude::*;
use serde_json::Value as SJ;

pub fn prop() -> Prop {
    Prop {
        id: "C19",
        title: "Conversion to and from serde_json preserves the document",
        rule: "trees with finite numbers, integers over the whole u64/i64 ranges (boundary-biased), any strings \
               and keys, depth <= 5 (9 thorough). to_serde_json(enc(tree)) and serde_json::Value::from(Value) \
               are compared structurally with the tree (each number as the same u64, else the same i64, else \
               the bit-identical f64) and with what the strict reference parser reads from an independently \
               written text rendering; the conversions back (From<&serde> and From<serde>) must give the \
               original value; to_serde_json_object must be the member map for objects and None otherwise. \
               Non-trivial = depth >= 2 and a number that is an integer above i64::MAX, a negative integer or a \
               float.",
        assumptions: &["serde_json's Value/Number accessors (is_u64, as_i64, as_f64) are trusted to report what the value holds"],
        subs: vec![Sub { name: "trees", run, replay: |j| replay_with::<(M, Vec<u16>)>(j, check) }],
    }
}

/// structural comparison of a serde tree with a model tree
fn same(sj: &SJ, m: &M, path: &str) -> Result<(), String> {
    match (sj, m) {
        (SJ::Null, M::Null) => Ok(()),
        (SJ::Bool(a), M::Bool(b)) if a == b => Ok(()),
        (SJ::String(a), M::Str(b)) if a == b => Ok(()),
        (SJ::Number(n), M::Num(w)) => {
            let ok = match w.norm() {
                N::U(v) => n.is_u64() && n.as_u64() == Some(v),
                N::I(v) if v >= 0 => n.is_u64() && n.as_u64() == Some(v as u64),
                N::I(v) => !n.is_u64() && n.is_i64() && n.as_i64() == Some(v),
                N::F(f) => !n.is_u64() && !n.is_i64() && n.as_f64().map(|g| g.to_bits()) == Some(f.to_bits()),
            };
            if ok {
                Ok(())
            } else {
                Err(format!("at {path}: serde number {n:?} (is_u64 {}, is_i64 {}) for {w:?}", n.is_u64(), n.is_i64()))
            }
        }
        (SJ::Array(a), M::Arr(b)) => {
            if a.len() != b.len() {
                return Err(format!("at {path}: array of {} for array of {}", a.len(), b.len()));
            }
            for (i, (x, y)) in a.iter().zip(b).enumerate() {
                same(x, y, &format!("{path}[{i}]"))?;
            }
            Ok(())
        }
        (SJ::Object(a), M::Obj(b)) => {
            if a.len() != b.len() {
                return Err(format!("at {path}: object with {} members for object with {}", a.len(), b.len()));
            }
            for (k, y) in b {
                match a.get(k) {
                    Some(x) => same(x, y, &format!("{path}.{k:?}"))?,
                    None => return Err(format!("at {path}: member {k:?} is missing")),
                }
            }
            Ok(())
        }
        _ => Err(format!("at {path}: serde has {sj:?}, document has {m:?}")),
    }
}

pub fn check(c: &(M, Vec<u16>), obs: &mut Obs) -> Result<(), String> {
    let (m, sels) = (&c.0, &c.1);
    if !m.all_finite() {
        return Err("[harness-internal] C19 case with a non-finite number".into());
    }
    let special = m.any(|x| matches!(x, M::Num(N::U(v)) if *v > i64::MAX as u64))
        || m.any(|x| matches!(x, M::Num(N::I(v)) if *v < 0))
        || m.any(|x| matches!(x, M::Num(N::F(_))));
    obs.nt_if(m.depth() >= 2 && special);
    obs.label_if(m.any(|x| matches!(x, M::Num(N::U(v)) if *v > i64::MAX as u64)), "u64-above-i64");
    let b = m.enc();
    // bytes -> serde
    let sj = nopanic("to_serde_json", || jsonb::to_serde_json(&b))?.map_err(|e| format!("to_serde_json failed on a valid document: {e:?}"))?;
    same(&sj, m, "$").map_err(|e| format!("to_serde_json: {e}\n  document {m:?}\n  serde {sj:?}"))?;
    // the same document as read by the independent strict parser from an independent rendering
    let text = model_text(m, sels);
    let parsed = ref_parse(&text, Mode::Strict).map_err(|e| format!("[harness-internal] reference rendering does not parse: {e}"))?;
    same(&sj, &parsed, "$").map_err(|e| format!("to_serde_json differs from the strict parse of {:?}: {e}", String::from_utf8_lossy(&text)))?;
    // ... and from the library's own text rendering
    let lib_text = nopanic("to_string", || jsonb::to_string(&b))?;
    let parsed = ref_parse(lib_text.as_bytes(), Mode::Strict)
        .map_err(|e| format!("the text rendering is not strict JSON ({e}): {:?}", crate::engine::truncate(&lib_text, 300)))?;
    same(&sj, &parsed, "$").map_err(|e| format!("to_serde_json differs from the strict parse of the text rendering {:?}: {e}", crate::engine::truncate(&lib_text, 300)))?;
    // tree -> serde
    let v = to_value(m);
    let sv: SJ = nopanic("From<Value> for serde_json::Value", || SJ::from(v.clone()))?;
    same(&sv, m, "$").map_err(|e| format!("serde_json::Value::from(Value): {e}\n  document {m:?}"))?;
    // serde -> tree, both impls
    let want = m.unsigned_norm().norm();
    for (name, back) in [
        ("Value::from(&serde)", nopanic("From<&serde>", || from_value(&jsonb::Value::from(&sj)))?),
        ("Value::from(serde)", nopanic("From<serde>", || from_value(&jsonb::Value::from(sj.clone())))?),
    ] {
        if !back.norm().ident_eq(&want) {
            return Err(format!("{name} = {back:?}, original document is {m:?}"));
        }
        let eq = nopanic("Value::eq", || to_value(&back) == v)?;
        if !eq {
            return Err(format!("{name} is not equal (Value ==) to the original {m:?}"));
        }
    }
    // object-only variant
    let so = nopanic("to_serde_json_object", || jsonb::to_serde_json_object(&b))?
        .map_err(|e| format!("to_serde_json_object failed on a valid document: {e:?}"))?;
    match (m, so) {
        (M::Obj(_), Some(map)) => {
            let as_val = SJ::Object(map);
            same(&as_val, m, "$").map_err(|e| format!("to_serde_json_object: {e}"))?;
            if as_val != sj {
                return Err("to_serde_json_object disagrees with to_serde_json".into());
            }
            obs.label("object-variant-some");
        }
        (M::Obj(_), None) => return Err("to_serde_json_object returned None for an object".into()),
        (_, Some(map)) => return Err(format!("to_serde_json_object returned members {map:?} for a {}", m.kind())),
        (_, None) => {}
    }
    Ok(())
}

fn run(ctx: &mut Ctx) {
    let cases = ctx.share(ctx.tier.pick(400_000, 4_000_000));
    let p = ctx.tier.pick(TreeParams::quick(), TreeParams::thorough()).finite().with_big(3);
    run_strategy(ctx, "C19", "trees", cases, (arb_doc(p), vec(any::<u16>(), 1..5)), check);
}
