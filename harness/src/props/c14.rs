//! C14 — the comparable key sorts bytewise exactly as compare orders documents.

use super::{replay_with, Prop, Sub};
use crate::cmpmodel::*;
use crate::engine::{nopanic, run_strategy, Ctx, Obs};
use crate::gen::*;
use crate::known;
use crate::model::*;
use proptest::prelude::*;
use std::cmp::Ordering;

pub fn prop() -> Prop {
    Prop {
        id: "C14",
        title: "The comparable key sorts bytewise exactly as compare orders documents",
        rule: "pairs from the triple generator of C04 (independent trees; trees derived by small mutations deep \
               inside, length-only differences, re-typed numbers, signed zeros, 2^53 neighbourhood; strings that \
               are prefixes of one another and strings containing bytes 0x00-0x08 come from the shared word \
               pool and the append-a-byte mutation). key(a).cmp(key(b)) is compared with the model comparator \
               (not the library's compare); agreement with the library's compare is checked too. A disagreement \
               is classified by an exact structural signature of the first difference; listed known classes are \
               tolerated and counted so the search continues behind them. Non-trivial = pair of the same \
               top-level kind that is not identical.",
        assumptions: &["cmpmodel.rs doc_cmp is the documented order (same oracle as C04)"],
        subs: vec![
            Sub { name: "pairs", run, replay: |j| replay_with::<(M, M)>(j, check) },
            // documents nested 10-100 levels deep against small mutations of themselves
            Sub { name: "deep", run: run_deep, replay: |j| replay_with::<(M, M)>(j, check) },
        ],
    }
}

fn key(m: &M) -> Result<Vec<u8>, String> {
    let b = m.enc();
    let mut k = Vec::new();
    nopanic("convert_to_comparable", || jsonb::convert_to_comparable(&b, &mut k))?;
    Ok(k)
}

/// does a pair of numerically equal numbers with different f64 images (0 against -0.0)
/// occur in comparison order at or before the first difference?
fn zero_pair_before_diff(a: &M, b: &M) -> bool {
    fn go(a: &M, b: &M, found: &mut bool) -> bool {
        // returns true when a difference was reached (stop walking)
        if rank(a) != rank(b) {
            return true;
        }
        match (a, b) {
            (M::Num(x), M::Num(y)) => {
                if num_cmp(x, y) != Ordering::Equal {
                    return true;
                }
                let fx = x.to_lib().as_f64().unwrap();
                let fy = y.to_lib().as_f64().unwrap();
                if fx.to_bits() != fy.to_bits() && !(fx.is_nan() && fy.is_nan()) {
                    *found = true;
                    return true;
                }
                false
            }
            (M::Str(x), M::Str(y)) => x != y,
            (M::Arr(x), M::Arr(y)) => {
                for (p, q) in x.iter().zip(y) {
                    if go(p, q, found) {
                        return true;
                    }
                }
                x.len() != y.len()
            }
            (M::Obj(x), M::Obj(y)) => {
                for ((k1, v1), (k2, v2)) in x.iter().zip(y) {
                    if k1 != k2 || go(v1, v2, found) {
                        return true;
                    }
                }
                x.len() != y.len()
            }
            _ => false,
        }
    }
    let mut f = false;
    go(a, b, &mut f);
    f
}

pub fn check(c: &(M, M), obs: &mut Obs) -> Result<(), String> {
    let (a, b) = (&c.0, &c.1);
    let (ka, kb) = (key(a)?, key(b)?);
    let got = ka.cmp(&kb);
    let want = doc_cmp(a, b);
    obs.nt_if(rank(a) == rank(b) && !a.ident_eq(b));
    obs.label_if(want == Ordering::Equal, "equal-documents");
    let libc = nopanic("compare", || jsonb::compare(&a.enc(), &b.enc()))?.map_err(|e| format!("{e:?}"))?;
    if libc != want {
        // C04's business; reported here only as context
        obs.label("library-compare-disagrees-with-model");
    }
    // a document given as JSON text has the key of the document the text denotes
    if a.all_finite() && a.size() < 2000 {
        let an = a.unsigned_norm();
        let text = crate::textref::model_text(&an, &[(ka.len() as u16).wrapping_mul(31), 7, 2]);
        let mut kt = Vec::new();
        nopanic("convert_to_comparable(text)", || jsonb::convert_to_comparable(&text, &mut kt))?;
        let kn = key(&an)?;
        if kt != kn {
            return Err(format!(
                "the JSON text {:?} gets the key {}, the same document as JSONB gets {}",
                String::from_utf8_lossy(&text),
                hex(&kt),
                hex(&kn)
            ));
        }
        obs.label("text-form-key");
    }
    // compare takes either document as JSON text too: the key order must agree with it in
    // every pairing
    if a.all_finite() && b.all_finite() && a.size() + b.size() < 2000 {
        let (au, bu) = (a.unsigned_norm(), b.unsigned_norm());
        let sel = [(ka.len() as u16).wrapping_mul(17), 6, 1];
        let (ta, tb) = (crate::textref::model_text(&au, &sel), crate::textref::model_text(&bu, &sel));
        let (ea, eb) = (a.enc(), b.enc());
        for (what, x, y) in [("text, binary", &ta, &eb), ("binary, text", &ea, &tb), ("text, text", &ta, &tb)] {
            let r = nopanic("compare", || jsonb::compare(x, y))?.map_err(|e| format!("compare({what}) failed: {e:?}"))?;
            if r != libc {
                return Err(format!("compare({what}) = {r:?} but compare(binary, binary) = {libc:?} (key order {got:?})\n  a = {a:?}\n  b = {b:?}"));
            }
        }
    }
    if got == libc {
        return Ok(());
    }
    if libc != want {
        // the known findings below are about the key format against a correct compare; a
        // compare that departs from the documented order is not one of them
        return Err(format!(
            "key order is {got:?}, the library's compare gives {libc:?} (the documented order is {want:?})\n  a = {a:?}\n  key(a) = {}\n  b = {b:?}\n  key(b) = {}",
            hex(&ka),
            hex(&kb)
        ));
    }
    let msg = format!(
        "key order is {got:?}, compare order is {want:?} (library's compare: {libc:?})\n  a = {a:?}\n  key(a) = {}\n  b = {b:?}\n  key(b) = {}",
        hex(&ka),
        hex(&kb)
    );
    // classification by exact structural signature
    // a 0 / -0.0 pair ahead of the first difference explains the disagreement only if the two
    // zeros really get different keys (they did before the F14b repair)
    if zero_pair_before_diff(a, b) && key(&M::Num(N::U(0)))? != key(&M::Num(N::F(-0.0)))? {
        return known::tolerate("C14", "F14b", obs, format!("0 and -0.0 compare Equal but get different keys: {msg}"));
    }
    // the two remaining known findings are flaws of the documented key format itself: they
    // apply only when the library's keys are exactly the keys of that format
    if ka != ref_key(a) || kb != ref_key(b) {
        return Err(format!("{msg}\n  (the keys are not the documented key format: {} / {})", hex(&ref_key(a)), hex(&ref_key(b))));
    }
    match first_diff(a, b) {
        Diff::Str { proper_prefix: true, .. } => known::tolerate(
            "C14",
            "F13",
            obs,
            format!("first difference is a string that is a proper prefix of the other (the key has no string terminator): {msg}"),
        ),
        Diff::Num { same_f64_image: true, .. } => known::tolerate(
            "C14",
            "F14a",
            obs,
            format!("first difference is two different numbers with the same f64 image: {msg}"),
        ),
        d => Err(format!("{msg}\n  first difference: {d:?}")),
    }
}

fn run(ctx: &mut Ctx) {
    let cases = ctx.share(ctx.tier.pick(300_000, 4_000_000));
    let p = ctx.tier.pick(TreeParams::quick(), TreeParams::thorough()).with_big(2);
    let strat = prop_oneof![
        8 => (super::c04::arb_triple(p), any::<bool>()).prop_map(|((a, b, c), w)| if w { (a, b) } else { (b, c) }),
        // two adjacent children of one container (near-equal siblings, re-split keys, re-typed numbers)
        1 => (arb_doc(p), any::<u16>()).prop_map(|(a, sel)| sibling_pair(&a, sel)),
    ];
    run_strategy(ctx, "C14", "pairs", cases, strat, check);
}


pub fn arb_deep_pair() -> BoxedStrategy<(M, M)> {
    (any::<u8>(), any::<u16>(), proptest::collection::vec(arb_mutation(), 1..3), 0u8..3)
        .prop_map(|(size_sel, seed, muts, kind)| {
            let a = big_doc(3, size_sel, seed, 2);
            let b = apply_mutations(&a, &muts, [MutKind::Any, MutKind::Shrinking, MutKind::Breaking][kind as usize]);
            (a, b)
        })
        .boxed()
}

fn run_deep(ctx: &mut Ctx) {
    let cases = ctx.share(ctx.tier.pick(40_000, 600_000));
    run_strategy(ctx, "C14", "deep", cases, arb_deep_pair(), check);
}
