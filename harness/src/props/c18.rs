//! C18 — numbers keep their exact value through the codec and are ordered by value.

use super::{replay_with, Prop, Sub};
use crate::cmpmodel::*;
use crate::engine::{guard, nopanic, run_strategy, Ctx, Obs};
use crate::gen::*;
use crate::jser::{Bytes, Jser};
use crate::model::*;
use proptest::prelude::*;
use std::cmp::Ordering;

pub fn prop() -> Prop {
    Prop {
        id: "C18",
        title: "Numbers keep their exact value through the codec and are ordered by that value",
        rule: "codec32: 32-bit integer and float patterns enumerated per representation (quick: stride \
               127 plus all width boundaries; thorough: all 2^32 of each); codec64: proptest over \
               boundary sets +-2, powers of two +-1, the 2^53 neighbourhood and random 64-bit patterns; \
               malformed: every tag byte x payload length 0..=10 plus the empty slice; order: generated \
               triples biased to integers against the floats just below/at/above them and the same value \
               in another representation. Oracles: independent shortest-form encoder, exact i128/f64 \
               comparator, nearest-double check by exact integer arithmetic. Non-trivial = value within 2 \
               of a width boundary, or |v| > 2^53, or (order) a pair of different representations whose \
               values differ by less than one ulp of the float.",
        assumptions: &["Rust's f64 total ordering primitives and i128 arithmetic are the exact-arithmetic base"],
        subs: vec![
            Sub { name: "codec32", run: run_codec32, replay: |j| replay_with::<N>(j, check_codec) },
            Sub { name: "codec64", run: run_codec64, replay: |j| replay_with::<N>(j, check_codec) },
            Sub { name: "malformed", run: run_malformed, replay: |j| replay_with::<Bytes>(j, check_malformed) },
            Sub { name: "order", run: run_order, replay: |j| replay_with::<(N, N, N)>(j, check_order) },
        ],
    }
}

fn nontrivial_num(n: &N) -> bool {
    let near = |v: i128| {
        [
            0i128,
            i8::MIN as i128,
            i8::MAX as i128,
            u8::MAX as i128,
            i16::MIN as i128,
            i16::MAX as i128,
            u16::MAX as i128,
            i32::MIN as i128,
            i32::MAX as i128,
            u32::MAX as i128,
            i64::MIN as i128,
            i64::MAX as i128,
            u64::MAX as i128,
        ]
        .iter()
        .any(|b| (v - b).abs() <= 2)
    };
    match n {
        N::I(v) => near(*v as i128) || (*v as i128).abs() > (1 << 53),
        N::U(v) => near(*v as i128) || *v > (1 << 53),
        N::F(f) => !f.is_finite() || f.abs() > 9007199254740992.0 || *f == 0.0 || f.is_subnormal(),
    }
}

/// the codec and view obligations for one number; cheap enough for billions of calls
#[inline]
pub fn codec_core(n: &N) -> Result<(), String> {
    let lib = n.to_lib();
    let mut out = [0u8; 16];
    let mut cur = &mut out[..];
    let len = lib
        .compact_encode(&mut cur)
        .map_err(|e| format!("compact_encode({n:?}) failed: {e:?}"))?;
    let mut want = [0u8; 9];
    let mut wv = Vec::new();
    n.enc(&mut wv);
    want[..wv.len()].copy_from_slice(&wv);
    if len != wv.len() || out[..len] != want[..wv.len()] {
        return Err(format!(
            "compact_encode({n:?}) = {} (length {len}), shortest documented form is {}",
            hex(&out[..len.min(16)]),
            hex(&wv)
        ));
    }
    let back = jsonb::Number::decode(&out[..len]).map_err(|e| format!("decode({}) failed: {e:?}", hex(&out[..len])))?;
    let b = N::from_lib(&back);
    if !b.ident_eq(n) {
        return Err(format!("decode(encode({n:?})) = {b:?}: value or representation changed"));
    }
    // views: exact or absent
    let (ai, au, af) = (lib.as_i64(), lib.as_u64(), lib.as_f64());
    match n {
        N::I(v) => {
            if ai != Some(*v) {
                return Err(format!("{n:?}.as_i64() = {ai:?}"));
            }
            let wu = if *v >= 0 { Some(*v as u64) } else { None };
            if au != wu {
                return Err(format!("{n:?}.as_u64() = {au:?}, want {wu:?}"));
            }
            match af {
                Some(f) if is_nearest_double(*v as i128, f) => {}
                _ => return Err(format!("{n:?}.as_f64() = {af:?} is not the nearest double")),
            }
        }
        N::U(v) => {
            if au != Some(*v) {
                return Err(format!("{n:?}.as_u64() = {au:?}"));
            }
            let wi = if *v <= i64::MAX as u64 { Some(*v as i64) } else { None };
            if ai != wi {
                return Err(format!("{n:?}.as_i64() = {ai:?}, want {wi:?}"));
            }
            match af {
                Some(f) if is_nearest_double(*v as i128, f) => {}
                _ => return Err(format!("{n:?}.as_f64() = {af:?} is not the nearest double")),
            }
        }
        N::F(f) => {
            match af {
                Some(g) if g.to_bits() == f.to_bits() || (g.is_nan() && f.is_nan()) => {}
                _ => return Err(format!("{n:?}.as_f64() = {af:?}")),
            }
            // exact or absent: a float may only be viewed as an integer it equals exactly
            if let Some(i) = ai {
                if num_cmp(&N::I(i), n) != Ordering::Equal {
                    return Err(format!("{n:?}.as_i64() = {i}, a different value"));
                }
            }
            if let Some(u) = au {
                if num_cmp(&N::U(u), n) != Ordering::Equal {
                    return Err(format!("{n:?}.as_u64() = {u}, a different value"));
                }
            }
        }
    }
    // reflexivity of Eq / Ord on the implementation's own answers
    if lib.cmp(&lib) != Ordering::Equal || lib != lib.clone() {
        return Err(format!("{n:?} is not equal to itself"));
    }
    Ok(())
}

/// full check incl. the byte-level casts on a scalar document
pub fn check_codec(n: &N, obs: &mut Obs) -> Result<(), String> {
    obs.nt_if(nontrivial_num(n));
    nopanic("number codec", || codec_core(n))??;
    let doc = M::Num(*n).enc();
    let got = nopanic("as_number", || jsonb::as_number(&doc))?;
    match got {
        Some(g) if N::from_lib(&g).ident_eq(n) => {}
        _ => return Err(format!("as_number(enc({n:?})) = {got:?}")),
    }
    let lib = n.to_lib();
    if nopanic("as_i64", || jsonb::as_i64(&doc))? != lib.as_i64()
        || nopanic("as_u64", || jsonb::as_u64(&doc))? != lib.as_u64()
        || nopanic("as_f64", || jsonb::as_f64(&doc))?.map(|f| N::F(f).enc_vec()) != lib.as_f64().map(|f| N::F(f).enc_vec())
    {
        return Err(format!("byte-level casts of enc({n:?}) disagree with the Number views"));
    }
    // the to_* casts of a number document are its views where a view exists
    let (ti, tu, tf) = (nopanic("to_i64", || jsonb::to_i64(&doc).ok())?, nopanic("to_u64", || jsonb::to_u64(&doc).ok())?, nopanic("to_f64", || jsonb::to_f64(&doc).ok())?);
    if lib.as_i64().is_some() && ti != lib.as_i64() || lib.as_u64().is_some() && tu != lib.as_u64() {
        return Err(format!("to_i64 / to_u64 of enc({n:?}) = {ti:?} / {tu:?}, the views are {:?} / {:?}", lib.as_i64(), lib.as_u64()));
    }
    if tf.map(|f| N::F(f).enc_vec()) != lib.as_f64().map(|f| N::F(f).enc_vec()) {
        return Err(format!("to_f64 of enc({n:?}) = {tf:?}, the f64 view is {:?}", lib.as_f64()));
    }
    if let (Some(i), None) = (ti, lib.as_i64()) {
        return Err(format!("to_i64 of enc({n:?}) = {i} although the number has no exact i64 view"));
    }
    if let (Some(u), None) = (tu, lib.as_u64()) {
        return Err(format!("to_u64 of enc({n:?}) = {u} although the number has no exact u64 view"));
    }
    Ok(())
}

fn run_codec32(ctx: &mut Ctx) {
    let stride: u64 = ctx.tier.pick(127, 1);
    let total: u64 = 1 << 32;
    let per = total / ctx.nworkers as u64;
    let lo = per * ctx.worker as u64;
    let hi = if ctx.worker + 1 == ctx.nworkers { total } else { lo + per };
    let mut evals = 0u64;
    let mut nt = 0u64;
    let res = guard(|| -> Result<(), (N, String)> {
        let mut x = lo + (stride - lo % stride) % stride;
        while x < hi {
            let bits = x as u32;
            for n in [N::I(bits as i32 as i64), N::U(bits as u64), N::F(f32::from_bits(bits) as f64)] {
                codec_core(&n).map_err(|e| (n, e))?;
                evals += 1;
                if nontrivial_num(&n) {
                    nt += 1;
                }
            }
            x += stride;
        }
        Ok(())
    });
    match res {
        Ok(Ok(())) => {}
        Ok(Err((n, e))) => ctx.fail("codec32", n.to_j(), e),
        Err(p) => ctx.fail("codec32", serde_json::Value::Null, format!("unexpected {} in 32-bit sweep", p.describe())),
    }
    ctx.record_enumerated(evals, nt);
    ctx.bump("codec32-evaluations", evals);
    if stride == 1 {
        ctx.extra.insert("exhaustive_32bit".into(), serde_json::json!(true));
    }
    // boundaries (every worker 0 only)
    if ctx.worker == 0 && ctx.failure.is_none() {
        let mut nums: Vec<N> = vec![];
        nums.extend(i64_edges().into_iter().map(N::I));
        nums.extend(u64_edges().into_iter().map(N::U));
        nums.extend(f64_edges().into_iter().map(N::F));
        for n in nums {
            let mut obs = Obs::default();
            match guard(|| check_codec(&n, &mut obs)) {
                Ok(Ok(())) => ctx.record(|| n.to_j(), &obs),
                Ok(Err(m)) => ctx.fail("codec32", n.to_j(), m),
                Err(p) => ctx.fail("codec32", n.to_j(), format!("unexpected {}", p.describe())),
            }
        }
    }
}

fn run_codec64(ctx: &mut Ctx) {
    let cases = ctx.share(ctx.tier.pick(3_000_000, 100_000_000));
    run_strategy(ctx, "C18", "codec64", cases, arb_num(false), check_codec);
}

/// Malformed number bytes must be rejected with an error, never a panic. Only what the
/// statement calls malformed is asserted: the empty slice, an unknown tag, an integer
/// tag whose payload length is not 1/2/4/8, a float tag whose payload length is not 8.
/// One-byte forms followed by extra bytes and non-shortest widths are not judged.
pub fn check_malformed(b: &Bytes, obs: &mut Obs) -> Result<(), String> {
    let bytes = &b.0;
    let res = nopanic(&format!("Number::decode({})", hex(bytes)), || jsonb::Number::decode(bytes))?;
    let must_err = if bytes.is_empty() {
        true
    } else {
        let pl = bytes.len() - 1;
        match bytes[0] {
            0x00 | 0x10 | 0x20 | 0x30 => false,
            0x40 | 0x50 => !matches!(pl, 1 | 2 | 4 | 8),
            0x60 => pl != 8,
            _ => true,
        }
    };
    obs.nt_if(must_err);
    if must_err && res.is_ok() {
        return Err(format!("Number::decode({}) accepted malformed bytes as {res:?}", hex(bytes)));
    }
    if !must_err && bytes.len() == N::dec_strict(bytes).map(|n| n.enc_vec().len()).unwrap_or(usize::MAX) {
        // a well-formed shortest encoding must decode to the model's value
        let want = N::dec_strict(bytes).unwrap();
        match &res {
            Ok(n) if N::from_lib(n).ident_eq(&want) => {}
            _ => return Err(format!("Number::decode({}) = {res:?}, want {want:?}", hex(bytes))),
        }
    }
    Ok(())
}

fn run_malformed(ctx: &mut Ctx) {
    // enumerated: every tag x payload length 0..=10, payload filled three ways
    let mut i = 0usize;
    for tag in 0u16..=255 {
        for pl in 0usize..=10 {
            for fill in [0x00u8, 0xFF, 0x5A] {
                i += 1;
                if i % ctx.nworkers != ctx.worker || ctx.failure.is_some() {
                    continue;
                }
                let mut v = vec![tag as u8];
                v.extend(std::iter::repeat(fill).take(pl));
                let b = Bytes(v);
                let mut obs = Obs::default();
                match guard(|| check_malformed(&b, &mut obs)) {
                    Ok(Ok(())) => ctx.record(|| b.to_j(), &obs),
                    Ok(Err(m)) => ctx.fail("malformed", b.to_j(), m),
                    Err(p) => ctx.fail("malformed", b.to_j(), format!("unexpected {}", p.describe())),
                }
            }
        }
    }
    if ctx.worker == 0 && ctx.failure.is_none() {
        let b = Bytes(vec![]);
        let mut obs = Obs::default();
        match guard(|| check_malformed(&b, &mut obs)) {
            Ok(Ok(())) => ctx.record(|| b.to_j(), &obs),
            Ok(Err(m)) => ctx.fail("malformed", b.to_j(), m),
            Err(p) => ctx.fail("malformed", b.to_j(), format!("unexpected {}", p.describe())),
        }
    }
    let cases = ctx.share(ctx.tier.pick(50_000, 2_000_000));
    let strat = (
        prop_oneof![Just(0x00u8), Just(0x10), Just(0x20), Just(0x30), Just(0x40), Just(0x50), Just(0x60), any::<u8>()],
        proptest::collection::vec(any::<u8>(), 0..12),
    )
        .prop_map(|(t, mut p)| {
            p.insert(0, t);
            Bytes(p)
        });
    run_strategy(ctx, "C18", "malformed", cases, strat, check_malformed);
}

// ---- order ------------------------------------------------------------------------

/// numbers near `n` in value but in other representations
fn neighbours() -> BoxedStrategy<(N, N, N)> {
    let near = |n: N, k: u16, d: i8| -> N {
        match n {
            N::I(v) => match k % 4 {
                0 => N::F(f64::from_bits(((v as f64).to_bits() as i64).wrapping_add(d as i64) as u64)),
                1 => N::F(v as f64),
                2 if v >= 0 => N::U((v as u64).wrapping_add(d as u64)),
                _ => N::I(v.wrapping_add(d as i64)),
            },
            N::U(v) => match k % 4 {
                0 => N::F(f64::from_bits(((v as f64).to_bits() as i64).wrapping_add(d as i64) as u64)),
                1 => N::F(v as f64),
                2 if v <= i64::MAX as u64 => N::I((v as i64).wrapping_add(d as i64)),
                _ => N::U(v.wrapping_add(d as u64)),
            },
            N::F(f) => match k % 4 {
                0 if f.abs() < 1.8e19 => N::I((f as i64).wrapping_add(d as i64)),
                1 if f.abs() < 1.8e19 => N::U((f as u64).wrapping_add(d as u64)),
                2 => N::F(-f),
                _ => N::F(f64::from_bits((f.to_bits() as i64).wrapping_add(d as i64) as u64)),
            },
        }
    };
    (arb_num(false), any::<u16>(), -2i8..=2, any::<u16>(), -2i8..=2, arb_num(false), 0u8..4)
        .prop_map(move |(a, k1, d1, k2, d2, c, mode)| {
            let b = near(a, k1, d1);
            let c2 = match mode {
                0 => c,
                1 => near(b, k2, d2),
                _ => near(a, k2, d2),
            };
            (a, b, c2)
        })
        .boxed()
}

pub fn check_order(t: &(N, N, N), obs: &mut Obs) -> Result<(), String> {
    let (a, b, c) = (&t.0, &t.1, &t.2);
    let (la, lb, lc) = (a.to_lib(), b.to_lib(), c.to_lib());
    let mut close_cross = false;
    for (x, y, lx, ly) in [(a, b, &la, &lb), (b, c, &lb, &lc), (a, c, &la, &lc), (b, a, &lb, &la), (c, b, &lc, &lb), (c, a, &lc, &la)] {
        let want = num_cmp(x, y);
        let got = nopanic("Number::cmp", || lx.cmp(ly))?;
        if got != want {
            return Err(format!("{x:?}.cmp({y:?}) = {got:?}, exact value order is {want:?}"));
        }
        let eq = nopanic("Number::eq", || lx == ly)?;
        if eq != (want == Ordering::Equal) {
            return Err(format!("{x:?} == {y:?} is {eq}, but exact comparison is {want:?}"));
        }
        if lx.partial_cmp(ly) != Some(want) {
            return Err(format!("{x:?}.partial_cmp({y:?}) disagrees with cmp"));
        }
        // every borrowed / owned overload of == and of the ordering operators
        {
            let (ox, oy) = (lx.clone(), ly.clone());
            let e = want == Ordering::Equal;
            let eqs = [ox == oy, ox == ly, lx == oy, !(ox != oy), !(ox != ly), !(lx != oy)];
            if eqs.iter().any(|v| *v != e) {
                return Err(format!("== / != overloads of {x:?} and {y:?} give {eqs:?}, exact comparison is {want:?}"));
            }
            let pcs = [ox.partial_cmp(&oy), ox.partial_cmp(&ly), lx.partial_cmp(&oy)];
            if pcs.iter().any(|v| *v != Some(want)) {
                return Err(format!("partial_cmp overloads (owned/owned, owned/&, &/owned) of {x:?} and {y:?} give {pcs:?}, exact value order is {want:?}"));
            }
            let lt = want == Ordering::Less;
            let ops = [ox < oy, ox < ly, lx < oy, !(ox >= oy), !(ox >= ly), !(lx >= oy)];
            if ops.iter().any(|v| *v != lt) {
                return Err(format!("< / >= overloads of {x:?} and {y:?} give {ops:?}, exact value order is {want:?}"));
            }
            if std::cmp::max(ox.clone(), oy.clone()).cmp(&ox) == Ordering::Less || std::cmp::min(ox.clone(), oy.clone()).cmp(&ox) == Ordering::Greater {
                return Err(format!("max / min of {x:?} and {y:?} are not bounds of the first"));
            }
        }
        if x.is_float() != y.is_float() {
            let (int_side, float_side) = if x.is_float() { (y, x) } else { (x, y) };
            if let (Some(i), N::F(f)) = (int_of(int_side), *float_side) {
                if f.is_finite() && f.abs() < 3.7e19 {
                    let ulp = (next_up(f.abs()) - f.abs()).max(1.0);
                    let d = ((f.trunc() as i128) - i).abs();
                    if (d as f64) <= ulp {
                        close_cross = true;
                    }
                }
            }
        }
    }
    obs.nt_if(close_cross || nontrivial_num(a) && nontrivial_num(b));
    obs.label_if(close_cross, "int-vs-float-within-ulp");
    // laws on the implementation's own answers
    let (ab, ba, bc, ac) = (la.cmp(&lb), lb.cmp(&la), lb.cmp(&lc), la.cmp(&lc));
    if ab != ba.reverse() {
        return Err(format!("antisymmetry: cmp({a:?},{b:?})={ab:?} but cmp({b:?},{a:?})={ba:?}"));
    }
    if ab != Ordering::Greater && bc != Ordering::Greater && ac == Ordering::Greater {
        return Err(format!("transitivity: {a:?} <= {b:?} <= {c:?} but cmp(a,c) = {ac:?}"));
    }
    if ab != Ordering::Less && bc != Ordering::Less && ac == Ordering::Less {
        return Err(format!("transitivity: {a:?} >= {b:?} >= {c:?} but cmp(a,c) = {ac:?}"));
    }
    if ab == Ordering::Equal && bc == Ordering::Equal && ac != Ordering::Equal {
        return Err(format!("equality is not transitive on {a:?}, {b:?}, {c:?}"));
    }
    Ok(())
}

fn run_order(ctx: &mut Ctx) {
    let cases = ctx.share(ctx.tier.pick(3_000_000, 100_000_000));
    run_strategy(ctx, "C18", "order", cases, neighbours(), check_order);
}
