//! C08 — JSONPath evaluation returns exactly the items the path denotes.

use super::{replay_with, Prop, Sub};
use crate::engine::{nopanic, run_strategy, Ctx, Obs};
use crate::gen::TreeParams;
use crate::jser::Jser;
use crate::model::*;
use crate::pathmodel::*;
use jsonb::jsonpath::{parse_json_path, Mode, Selector};

pub fn prop() -> Prop {
    Prop {
        id: "C08",
        title: "JSONPath evaluation returns exactly the items the path denotes",
        rule: "(document, path) generated together: a finite-number tree (scalar roots, empty containers and \
               container-valued selections included) and a path built step by step against it (names that exist \
               at the current frontier and near misses, indices around the frontier's lengths, last offsets incl. \
               the i32 extremes, ranges straddling the ends, wildcards, filters whose operand paths and literals \
               come from values reachable from the frontier, nested exists, &&/||/parentheses, comparisons \
               against $, literal on either side, stand-alone predicates), printed in a random spelling and \
               parsed by the library. The All-mode result, split by the reported offsets, is compared item by \
               item with a three-valued model evaluator over the tree (cross-kind ordering comparisons are \
               'unknown': such items may but need not appear); every entry point must return Ok or Err, never \
               panic. Non-trivial = fully determined result, path with >= 2 steps and a non-empty result, or a \
               predicate with a determined answer. Distinct = distinct (document, path text). Every selection is \
               also made into buffers that already hold an earlier result (appended part and prior part compared \
               with the empty-buffer run). handbuilt: every sequence of up to three path elements built from the \
               public AST types (incl. `@` first, `$` in the middle, a predicate followed by steps) x three \
               documents, enumerated: every entry point returns, never panics.",
        assumptions: &[
            "pathmodel.rs evaluator (from README's operator table and the statement) is the documented meaning",
            "ordering comparisons between values of different kinds are unspecified and not asserted",
        ],
        subs: vec![
            Sub { name: "eval", run, replay: |j| replay_with::<PathCase>(j, check) },
            Sub { name: "handbuilt", run: run_handbuilt, replay: |j| replay_with::<(Vec<u8>, u8)>(j, check_handbuilt) },
        ],
    }
}

pub fn split_items(data: &[u8], offsets: &[u64]) -> Result<Vec<Vec<u8>>, String> {
    let mut out = vec![];
    let mut s = 0usize;
    for o in offsets {
        let e = *o as usize;
        if e < s || e > data.len() {
            return Err(format!("offsets {offsets:?} do not delimit the {} data bytes", data.len()));
        }
        out.push(data[s..e].to_vec());
        s = e;
    }
    if s != data.len() {
        return Err(format!("offsets {offsets:?} leave {} trailing data bytes", data.len() - s));
    }
    Ok(out)
}

pub fn show_items(items: &[Vec<u8>]) -> String {
    let v: Vec<String> = items
        .iter()
        .map(|b| match validate(b) {
            Ok(m) => format!("{m:?}"),
            Err(e) => format!("<not canonical: {e}: {}>", hex(b)),
        })
        .collect();
    format!("[{}]", v.join(", "))
}

pub fn check(c: &PathCase, obs: &mut Obs) -> Result<(), String> {
    let doc = &c.doc;
    let root = doc.enc();
    let text = c.path.as_bytes();
    // the quantifier is "every path the parser accepts"
    let parsed = nopanic("parse_json_path", || parse_json_path(text).map(|p| from_lib(&p)))?;
    let ast = match parsed {
        Err(_) => {
            obs.label("path-rejected-by-parser");
            if std::env::var("VERIF_DEBUG_REJECT").is_ok() {
                return Err(format!("debug: parser rejected {:?}", c.path));
            }
            return Ok(());
        }
        Ok(Err(e)) => return Err(format!("[harness-internal] parsed path {:?} is outside the model: {e}", c.path)),
        Ok(Ok(a)) => a,
    };
    let p = || parse_json_path(text).unwrap();
    // totality of every entry point
    let mut d = Vec::new();
    let mut o = Vec::new();
    let r_all = nopanic("Selector::select(All)", || Selector::new(p(), Mode::All).select(&root, &mut d, &mut o))?;
    {
        let (mut d2, mut o2) = (Vec::new(), Vec::new());
        nopanic("get_by_path", || jsonb::get_by_path(&root, p(), &mut d2, &mut o2))?.ok();
        let (mut d2, mut o2) = (Vec::new(), Vec::new());
        nopanic("get_by_path_first", || jsonb::get_by_path_first(&root, p(), &mut d2, &mut o2))?.ok();
        let (mut d2, mut o2) = (Vec::new(), Vec::new());
        nopanic("get_by_path_array", || jsonb::get_by_path_array(&root, p(), &mut d2, &mut o2))?.ok();
        nopanic("Selector::exists", || Selector::new(p(), Mode::Mixed).exists(&root))?.ok();
        nopanic("Selector::predicate_match", || Selector::new(p(), Mode::First).predicate_match(&root))?.ok();
    }
    // the same selections appended to buffers that already hold earlier results: what is
    // appended, and what was there, must not depend on the buffers' contents
    {
        let h = crate::jser::hash_bytes(text);
        let prior: Vec<u8> = (0..(1 + h % 13) as u8).map(|i| i.wrapping_mul(37) ^ (h >> 8) as u8).collect();
        let prior_offs: Vec<u64> = vec![prior.len() as u64];
        for mode in [Mode::All, Mode::First, Mode::Array, Mode::Mixed] {
            let (mut d0, mut o0) = (Vec::new(), Vec::new());
            let r0 = nopanic("Selector::select", || Selector::new(p(), mode.clone()).select(&root, &mut d0, &mut o0))?;
            let (mut d1, mut o1) = (prior.clone(), prior_offs.clone());
            let r1 = nopanic("Selector::select (appending)", || Selector::new(p(), mode.clone()).select(&root, &mut d1, &mut o1))?;
            if r0.is_ok() != r1.is_ok() {
                return Err(format!("select({mode:?}) of {:?}: {r0:?} into empty buffers, {r1:?} into buffers holding an earlier result; document {doc:?}", c.path));
            }
            if r0.is_ok() {
                let mut wd = prior.clone();
                wd.extend_from_slice(&d0);
                let mut wo = prior_offs.clone();
                wo.extend(o0.iter().map(|x| x + prior.len() as u64));
                if d1 != wd || o1 != wo {
                    return Err(format!(
                        "select({mode:?}) of {:?} appended to buffers holding {} / {prior_offs:?} left {} / {o1:?}; into empty buffers it writes {} / {o0:?}\n  document {doc:?}",
                        c.path,
                        hex(&prior),
                        hex(&d1),
                        hex(&d0)
                    ));
                }
            }
        }
    }
    let r_exists = nopanic("path_exists", || jsonb::path_exists(&root, p()))?;
    let r_match = nopanic("path_match", || jsonb::path_match(&root, p()))?;

    let expect = match eval(doc, &ast) {
        Err(EvalErr::NoMeaning(why)) => {
            // no documented meaning: an error (or an evaluation that never reaches the
            // offending part) is fine, a panic was excluded above
            obs.label("no-meaning-path");
            obs.nt_if(r_all.is_err());
            let _ = why;
            return Ok(());
        }
        Ok(e) => e,
    };
    let ctx = |what: &str| format!("{what}\n  document {doc:?}\n  path {:?}\n  parsed as {ast:?}", c.path);
    r_all.as_ref().map_err(|e| ctx(&format!("selection failed with {e:?} on a path with a documented meaning")))?;
    match expect {
        Expect::Predicate(t) => {
            obs.label("predicate");
            let got = split_items(&d, &[d.len() as u64])?;
            let b = match validate(&got[0]) {
                Ok(M::Bool(b)) => b,
                other => return Err(ctx(&format!("a predicate path must yield one boolean, got {other:?} ({})", hex(&d)))),
            };
            let m = r_match.map_err(|e| ctx(&format!("path_match failed with {e:?}")))?;
            if m != b {
                return Err(ctx(&format!("select yields {b} but path_match says {m}")));
            }
            match t {
                Tri::Unknown => obs.label("unknown-comparison"),
                t => {
                    if (t == Tri::True) != b {
                        return Err(ctx(&format!("predicate evaluates to {b}, the documented meaning gives {t:?}")));
                    }
                    obs.nt();
                }
            }
        }
        Expect::Items(items) => {
            let got = split_items(&d, &o).map_err(|e| ctx(&e))?;
            let all: Vec<Vec<u8>> = items.iter().map(|i| i.v.enc()).collect();
            let determined = items.iter().all(|i| i.sure);
            if determined {
                if got != all {
                    return Err(ctx(&format!("selected {}\n  the path denotes {}", show_items(&got), show_items(&all))));
                }
            } else {
                obs.label("unknown-comparison");
                // Is `got` the candidate sequence with every sure item kept and some subset of
                // the unsure ones dropped? Equal encodings can occur among sure and unsure
                // candidates, so this is a reachability computation, not a greedy scan.
                let mut reach: std::collections::BTreeSet<usize> = [0usize].into_iter().collect();
                for (it, e) in items.iter().zip(&all) {
                    let mut next = std::collections::BTreeSet::new();
                    for g in &reach {
                        if !it.sure {
                            next.insert(*g);
                        }
                        if *g < got.len() && got[*g] == *e {
                            next.insert(*g + 1);
                        }
                    }
                    reach = next;
                    if reach.is_empty() {
                        break;
                    }
                }
                if !reach.contains(&got.len()) {
                    let sure: Vec<Vec<u8>> = items.iter().zip(&all).filter(|(i, _)| i.sure).map(|(_, e)| e.clone()).collect();
                    return Err(ctx(&format!(
                        "selected {}\n  which is not the candidate sequence {} with only uncertain items left out; items the path certainly denotes: {}",
                        show_items(&got),
                        show_items(&all),
                        show_items(&sure)
                    )));
                }
            }
            if determined {
                // first / array / mixed forms of the same items (through the convenience functions)
                let (mut d1, mut o1) = (Vec::new(), Vec::new());
                nopanic("get_by_path_first", || jsonb::get_by_path_first(&root, p(), &mut d1, &mut o1))?.map_err(|e| ctx(&format!("get_by_path_first failed with {e:?}")))?;
                let want_first: Vec<u8> = all.first().cloned().unwrap_or_default();
                if d1 != want_first {
                    return Err(ctx(&format!("get_by_path_first wrote {}, the first item the path denotes is {}", hex(&d1), hex(&want_first))));
                }
                let arr = M::Arr(items.iter().map(|i| i.v.clone()).collect()).enc();
                let (mut d2, mut o2) = (Vec::new(), Vec::new());
                nopanic("get_by_path_array", || jsonb::get_by_path_array(&root, p(), &mut d2, &mut o2))?.map_err(|e| ctx(&format!("get_by_path_array failed with {e:?}")))?;
                if d2 != arr {
                    return Err(ctx(&format!("get_by_path_array wrote {}, the array of the items the path denotes is {}", hex(&d2), hex(&arr))));
                }
                let (mut d3, mut o3) = (Vec::new(), Vec::new());
                nopanic("get_by_path", || jsonb::get_by_path(&root, p(), &mut d3, &mut o3))?.map_err(|e| ctx(&format!("get_by_path failed with {e:?}")))?;
                let want_mixed = if all.len() >= 2 { arr.clone() } else { want_first.clone() };
                if d3 != want_mixed {
                    return Err(ctx(&format!("get_by_path wrote {}, expected {}", hex(&d3), hex(&want_mixed))));
                }
            }
            let ex = r_exists.map_err(|e| ctx(&format!("path_exists failed with {e:?}")))?;
            if ex != !got.is_empty() {
                return Err(ctx(&format!("path_exists = {ex} but All-mode selected {} item(s)", got.len())));
            }
            if r_match.is_ok() {
                return Err(ctx("path_match succeeded on a non-predicate path"));
            }
            let nsteps = match &ast {
                PathAst::Steps(_, s) => s.len(),
                _ => 0,
            };
            obs.label_if(doc.is_scalar(), "scalar-root");
            obs.label_if(!got.is_empty(), "non-empty-result");
            obs.label_if(got.iter().any(|b| b[0] != 0x20), "container-item");
            obs.label_if(format!("{ast:?}").contains("Filter("), "has-filter");
            obs.nt_if(determined && nsteps >= 2 && !got.is_empty());
        }
    }
    Ok(())
}

fn run(ctx: &mut Ctx) {
    let cases = ctx.share(ctx.tier.pick(500_000, 5_000_000));
    let p = ctx.tier.pick(TreeParams::quick(), TreeParams::thorough()).with_big(1);
    run_strategy(ctx, "C08", "eval", cases, arb_path_for(p), check);
}

// ---- structured decoding of fuzzer bytes (libFuzzer target c08_eval) ------------------------

fn take(d: &mut &[u8]) -> u8 {
    match d.split_first() {
        Some((b, r)) => {
            *d = r;
            *b
        }
        None => 0,
    }
}
fn doc_from_bytes(d: &mut &[u8], depth: u32) -> M {
    const STRS: &[&str] = &["", "a", "b", "k", "key", "k1", "name", "price", "A", "ab", "测试", "1", "true"];
    let t = take(d);
    match t % 12 {
        0 => M::Null,
        1 => M::Bool(take(d) % 2 == 0),
        2 => M::Num(N::U(take(d) as u64)),
        3 => M::Num(N::I(-(take(d) as i64))),
        4 => M::Num(N::F(take(d) as f64 / 4.0 - 8.0)),
        5 => M::Num(N::U([u64::MAX, 1 << 53, (1 << 53) + 1, 65536][take(d) as usize % 4])),
        6 | 7 => M::Str(STRS[take(d) as usize % STRS.len()].to_string()),
        8 | 9 if depth < 4 => M::Arr((0..take(d) % 5).map(|_| doc_from_bytes(d, depth + 1)).collect()),
        10 | 11 if depth < 4 => M::Obj((0..take(d) % 5).map(|_| (STRS[take(d) as usize % STRS.len()].to_string(), doc_from_bytes(d, depth + 1))).collect()),
        _ => M::Num(N::F(1.5)),
    }
}
/// first byte: length of the document part; the rest drives the path derivation
pub fn case_from_bytes(data: &[u8]) -> Option<PathCase> {
    if data.len() < 4 {
        return None;
    }
    let n = (data[0] as usize).min(data.len() - 1);
    let mut dpart = &data[1..1 + n];
    let doc = doc_from_bytes(&mut dpart, 0);
    let rest = &data[1 + n..];
    let ch: Vec<u16> = rest.chunks(2).map(|c| u16::from_le_bytes([c[0], *c.get(1).unwrap_or(&0)])).collect();
    let ast = derive_path_ast(&doc, &ch);
    let path = print(&ast, &mut Style::new(&ch, ch.first().map(|x| x % 2 == 0).unwrap_or(true)));
    Some(PathCase { doc, path })
}


// ---- paths built from the public AST types rather than parsed ---------------------------------
// "a path the evaluator cannot handle is reported as an error": element sequences the parser
// never produces (`@` first, `$` in the middle, a predicate followed by steps) must not panic.

fn handbuilt_element(code: u8) -> jsonb::jsonpath::Path<'static> {
    use jsonb::jsonpath as jp;
    use std::borrow::Cow;
    let cmp = |l: jp::PathValue<'static>| {
        Box::new(jp::Expr::BinaryOp {
            op: jp::BinaryOperator::Eq,
            left: Box::new(jp::Expr::Paths(vec![jp::Path::Current])),
            right: Box::new(jp::Expr::Value(Box::new(l))),
        })
    };
    match code % 10 {
        0 => jp::Path::Root,
        1 => jp::Path::Current,
        2 => jp::Path::DotWildcard,
        3 => jp::Path::BracketWildcard,
        4 => jp::Path::DotField(Cow::Borrowed("a")),
        5 => jp::Path::ArrayIndices(vec![jp::ArrayIndex::Index(jp::Index::Index(0))]),
        6 => jp::Path::ArrayIndices(vec![jp::ArrayIndex::Slice((jp::Index::LastIndex(-1), jp::Index::LastIndex(0)))]),
        7 => jp::Path::FilterExpr(cmp(jp::PathValue::Number(jsonb::Number::UInt64(1)))),
        8 => jp::Path::Predicate(cmp(jp::PathValue::Null)),
        _ => jp::Path::ObjectField(Cow::Borrowed("a")),
    }
}

pub fn check_handbuilt(c: &(Vec<u8>, u8), obs: &mut Obs) -> Result<(), String> {
    use jsonb::jsonpath as jp;
    let doc = match c.1 % 3 {
        0 => M::Obj([("a".to_string(), M::Arr(vec![M::Num(N::U(1)), M::Null]))].into_iter().collect()),
        1 => M::Arr(vec![M::Num(N::U(1)), M::Obj([("a".to_string(), M::Num(N::U(1)))].into_iter().collect())]),
        _ => M::Num(N::U(1)),
    }
    .enc();
    let build = || jp::JsonPath { paths: c.0.iter().map(|x| handbuilt_element(*x)).collect() };
    let shown = format!("{:?}", build());
    for mode in [Mode::All, Mode::First, Mode::Array, Mode::Mixed] {
        nopanic(&format!("select({mode:?}) of the hand-built path {shown}"), || {
            let (mut d, mut o) = (Vec::new(), Vec::new());
            let _ = Selector::new(build(), mode.clone()).select(&doc, &mut d, &mut o);
        })?;
    }
    nopanic(&format!("path_exists / path_match of the hand-built path {shown}"), || {
        let _ = jsonb::path_exists(&doc, build());
        let _ = jsonb::path_match(&doc, build());
    })?;
    obs.nt_if(c.0.first().map(|x| x % 10 != 0).unwrap_or(false) || c.0.iter().skip(1).any(|x| x % 10 <= 1));
    obs.label_if(c.0.first().map(|x| x % 10 == 1).unwrap_or(false), "current-item-first");
    Ok(())
}

fn run_handbuilt(ctx: &mut Ctx) {
    let mut cases: Vec<Vec<u8>> = vec![vec![]];
    for a in 0..10u8 {
        cases.push(vec![a]);
        for b in 0..10u8 {
            cases.push(vec![a, b]);
            for c in 0..10u8 {
                cases.push(vec![a, b, c]);
            }
        }
    }
    for (k, codes) in cases.into_iter().enumerate() {
        for d in 0..3u8 {
            if (k * 3 + d as usize) % ctx.nworkers != ctx.worker || ctx.failure.is_some() {
                continue;
            }
            let c = (codes.clone(), d);
            let mut obs = Obs::default();
            match crate::engine::guard(|| check_handbuilt(&c, &mut obs)) {
                Ok(Ok(())) => ctx.record(|| c.to_j(), &obs),
                Ok(Err(m)) => ctx.fail("handbuilt", c.to_j(), m),
                Err(p) => ctx.fail("handbuilt", c.to_j(), format!("unexpected {}", p.describe())),
            }
        }
    }
}
