//! C16 — key-path syntax parses to its meaning, prints back faithfully and never panics.

use super::{replay_with, Prop, Sub};
use crate::engine::{nopanic, pick, run_strategy, Ctx, Obs};
use crate::gen::arb_string;
use crate::jser::Bytes;
use crate::pathmodel::raw_name_ok;
use crate::treefn::KP;
use jsonb::keypath::{parse_key_paths, KeyPath};
use proptest::collection::vec;
use proptest::prelude::*;

pub fn prop() -> Prop {
    Prop {
        id: "C16",
        title: "Key-path syntax parses to its meaning, prints back faithfully and never panics",
        rule: "lists: 0-6 elements (Index over the whole i32 range with optional '+', QuotedName with every \
               escape form incl. the empty name, Name over the name alphabet incl. non-ASCII) printed with \
               every spacing variant (space, tab, CR, LF around braces, elements and commas); the parse must \
               return exactly the intended elements, and parse(to_string(kp)) == kp when names need no escapes. \
               reject: renderings made invalid by construction (missing brace, unterminated quote, trailing or \
               doubled comma, junk after the closing brace, two lists, a digit string that overflows i32, a name \
               starting with a digit or sign). raw: token soups and raw bytes are judged differentially against a \
               reference recognizer of the brace-list grammar (accepted iff the reference accepts, same elements), never a panic. Non-trivial = \
               list with >= 2 elements of >= 2 kinds, or any reject case. Distinct = distinct input text.",
        assumptions: &["the printer in this file emits only forms of the documented brace-list grammar"],
        subs: vec![
            Sub { name: "lists", run: run_lists, replay: |j| replay_with::<ListCase>(j, check_list) },
            Sub { name: "reject", run: run_reject, replay: |j| replay_with::<String>(j, check_reject) },
            Sub { name: "raw", run: run_raw, replay: |j| replay_with::<Bytes>(j, check_raw) },
        ],
    }
}

#[derive(Clone, Debug)]
pub struct ListCase {
    pub elems: Vec<KP>,
    pub style: Vec<u16>,
}
impl crate::jser::Jser for ListCase {
    fn to_j(&self) -> serde_json::Value {
        serde_json::json!({"text": render(&self.elems, &self.style), "elems": self.elems.to_j(), "style": self.style.to_j()})
    }
    fn from_j(j: &serde_json::Value) -> Result<Self, String> {
        Ok(ListCase { elems: Vec::<KP>::from_j(j.get("elems").ok_or("elems")?)?, style: Vec::<u16>::from_j(j.get("style").ok_or("style")?)? })
    }
}

fn from_lib(k: &KeyPath) -> KP {
    match k {
        KeyPath::Index(i) => KP::Index(*i),
        KeyPath::Name(n) => KP::Name(n.to_string()),
        KeyPath::QuotedName(n) => KP::Quoted(n.to_string()),
    }
}

fn parse(text: &[u8]) -> Result<Result<Vec<KP>, String>, String> {
    nopanic(&format!("parse_key_paths({:?})", String::from_utf8_lossy(text)), || {
        parse_key_paths(text).map(|k| k.paths.iter().map(from_lib).collect()).map_err(|e| format!("{e:?}"))
    })
}

struct St<'a> {
    ch: &'a [u16],
    at: usize,
}
impl<'a> St<'a> {
    fn next(&mut self) -> u16 {
        if self.ch.is_empty() {
            return 0;
        }
        let v = self.ch[self.at % self.ch.len()];
        self.at += 1;
        v
    }
    fn ws(&mut self) -> &'static str {
        ["", "", " ", "  ", "\t", "\n", "\r", "\r\n", " \t\n"][pick(self.next(), 9)]
    }
}

fn quote(s: &str, st: &mut St) -> String {
    let mut out = String::from("\"");
    for c in s.chars() {
        let sel = st.next();
        match c {
            '"' => out.push_str("\\\""),
            '\\' => out.push_str("\\\\"),
            '\n' if sel % 2 == 0 => out.push_str("\\n"),
            '\t' if sel % 2 == 0 => out.push_str("\\t"),
            '\r' if sel % 2 == 0 => out.push_str("\\r"),
            '\u{8}' if sel % 2 == 0 => out.push_str("\\b"),
            '\u{c}' if sel % 2 == 0 => out.push_str("\\f"),
            '/' if sel % 3 == 0 => out.push_str("\\/"),
            c if (c as u32) < 0x10000 && sel % 8 == 7 => {
                if sel & 0x100 != 0 {
                    out.push_str(&format!("\\u{:04X}", c as u32))
                } else {
                    out.push_str(&format!("\\u{{{:04x}}}", c as u32))
                }
            }
            c if (c as u32) >= 0x10000 && sel % 8 == 7 => {
                let v = c as u32 - 0x10000;
                let (hi, lo) = (0xD800 + (v >> 10), 0xDC00 + (v & 0x3FF));
                match sel >> 9 & 3 {
                    0 => out.push_str(&format!("\\u{hi:04x}\\u{lo:04X}")),
                    1 => out.push_str(&format!("\\u{{{hi:04X}}}\\u{{{lo:04x}}}")),
                    2 => out.push_str(&format!("\\u{hi:04X}\\u{{{lo:04X}}}")),
                    _ => out.push_str(&format!("\\u{{{hi:04x}}}\\u{lo:04x}")),
                }
            }
            c => out.push(c),
        }
    }
    out.push('"');
    out
}

pub fn render(elems: &[KP], style: &[u16]) -> String {
    let mut st = St { ch: style, at: 0 };
    let mut out = String::new();
    out.push_str(st.ws());
    out.push('{');
    if elems.is_empty() {
        out.push_str(st.ws());
    }
    for (i, e) in elems.iter().enumerate() {
        if i > 0 {
            out.push(',');
        }
        out.push_str(st.ws());
        match e {
            KP::Index(v) => {
                if *v >= 0 && st.next() % 4 == 0 {
                    out.push('+');
                }
                out.push_str(&v.to_string());
            }
            KP::Quoted(s) => out.push_str(&quote(s, &mut st)),
            KP::Name(s) => out.push_str(s),
        }
        out.push_str(st.ws());
    }
    out.push('}');
    out.push_str(st.ws());
    out
}

/// a plain name: name characters, not starting with a digit or a sign
fn name_ok(s: &str) -> bool {
    raw_name_ok(s) && !s.chars().next().unwrap().is_ascii_digit()
}

pub fn check_list(c: &ListCase, obs: &mut Obs) -> Result<(), String> {
    let text = render(&c.elems, &c.style);
    obs.ident = Some(text.clone());
    let kinds = c.elems.iter().map(|e| std::mem::discriminant(e)).collect::<Vec<_>>();
    obs.nt_if(c.elems.len() >= 2 && kinds.iter().any(|k| *k != kinds[0]));
    obs.label_if(c.elems.is_empty(), "empty-list");
    let got = parse(text.as_bytes())?.map_err(|e| format!("{text:?} is a key path of the documented form but was rejected ({e}); intended {:?}", c.elems))?;
    if got != c.elems {
        return Err(format!("{text:?} parses as {got:?}, intended {:?}", c.elems));
    }
    // print / parse
    let plain = c.elems.iter().all(|e| match e {
        KP::Quoted(s) => !s.contains(['"', '\\']) && !s.chars().any(|c| c.is_control()),
        _ => true,
    });
    if plain {
        let printed = nopanic("Display for KeyPaths", || format!("{}", parse_key_paths(text.as_bytes()).unwrap()))?;
        let again = parse(printed.as_bytes())?;
        if again.as_ref().ok() != Some(&c.elems) {
            return Err(format!("{text:?} prints as {printed:?}, which parses back as {again:?}; elements were {:?}", c.elems));
        }
        obs.label("roundtrip-checked");
    }
    Ok(())
}

fn arb_elem() -> BoxedStrategy<KP> {
    let names = ["a", "b", "key", "k1", "x_y", "测试", "Z", "e9", "_1", "a#b", "né", "²x", "½cup", "٣abc", "m²", "Ⅷ", "x٣"];
    prop_oneof![
        2 => prop_oneof![any::<i32>(), -3i32..4, Just(i32::MIN), Just(i32::MAX)].prop_map(KP::Index),
        2 => prop_oneof![arb_string(), Just(String::new()), Just("12".to_string()), Just("-1".to_string())].prop_map(KP::Quoted),
        2 => (0..names.len()).prop_map(move |i| KP::Name(names[i].to_string())),
        1 => arb_string().prop_filter("name characters only", |s| name_ok(s)).prop_map(KP::Name),
    ]
    .boxed()
}

fn arb_list() -> BoxedStrategy<ListCase> {
    (vec(arb_elem(), 0..6), vec(any::<u16>(), 0..10)).prop_map(|(elems, style)| ListCase { elems, style }).boxed()
}

fn run_lists(ctx: &mut Ctx) {
    let cases = ctx.share(ctx.tier.pick(500_000, 5_000_000));
    run_strategy(ctx, "C16", "lists", cases, arb_list(), check_list);
}

pub fn check_reject(text: &String, obs: &mut Obs) -> Result<(), String> {
    obs.nt();
    obs.ident = Some(text.clone());
    if let Ok(k) = parse(text.as_bytes())? {
        return Err(format!("{text:?} is not a key path of the documented form but was accepted as {k:?}"));
    }
    Ok(())
}

fn run_reject(ctx: &mut Ctx) {
    let cases = ctx.share(ctx.tier.pick(200_000, 2_000_000));
    let strat = (arb_list(), any::<u16>(), 0u8..9).prop_filter_map("nothing to corrupt", |(l, sel, kind)| {
        // keep quoted content free of braces, commas and quotes so the corruption is unambiguous
        let clean = l.elems.iter().all(|e| match e {
            KP::Quoted(s) => !s.contains(['"', '\\', '{', '}', ',']),
            _ => true,
        });
        if !clean {
            return None;
        }
        let t = render(&l.elems, &l.style);
        Some(match kind {
            0 => t.replacen('{', "", 1),
            1 => {
                let i = t.rfind('}')?;
                format!("{}{}", &t[..i], &t[i + 1..])
            }
            2 => {
                let i = t.find('"')?;
                format!("{}{}", &t[..i], &t[i + 1..])
            }
            3 => {
                if l.elems.is_empty() {
                    return None;
                }
                let i = t.rfind('}')?;
                format!("{},{}", &t[..i], &t[i..])
            }
            4 => format!("{t}{}", ["x", "}", "{", ",", "\"", "1"][pick(sel, 6)]),
            5 => format!("{t}{t}"),
            // digits that overflow i32, alone or followed by name characters: neither an index
            // nor a plain name (plain names do not start with a digit)
            6 => {
                let digits = ["2147483648", "99999999999", "4294967296", "30000000000000000000", "2147483650"][pick(sel, 5)];
                let suffix = ["", "", "a", "x_y", "abc", "é", "e9", "_"][pick(sel >> 4, 8)];
                let sign = ["", "", "", "-", "+"][pick(sel >> 8, 5)];
                format!("{{{sign}{digits}{suffix}}}")
            }
            7 => format!("{{{}}}", ["1a", "-a", "+a", "9z", "-", "+", "0x10", "1_000", "12abc", "-2147483649", "7é"][pick(sel, 11)]),
            _ => {
                let i = t.find(',')?;
                format!("{},{}", &t[..i], &t[i..])
            }
        })
    });
    run_strategy(ctx, "C16", "reject", cases, strat, check_reject);
}

// ---- reference recognizer for the brace-list grammar (differential oracle on raw input) --------

fn is_ws(c: u8) -> bool {
    matches!(c, b' ' | b'\t' | b'\r' | b'\n')
}
fn is_name_terminator(c: u8) -> bool {
    is_ws(c)
        || matches!(
            c,
            b',' | b'.' | b':' | b'{' | b'}' | b'[' | b']' | b'(' | b')' | b'?' | b'@' | b'$' | b'|' | b'&' | b'<' | b'>' | b'!' | b'=' | b'+' | b'-'
                | b'*' | b'/' | b'%' | b'"' | b'\''
        )
}
/// decodes the escapes of a name or string body exactly like a JSON string body (the
/// parsers share the decoder): short escapes, \uXXXX, \u{XXXX}, surrogate pairs, unpaired
/// surrogates kept literally; raw control characters allowed; must be UTF-8
fn decode_body(body: &[u8]) -> Result<String, ()> {
    let mut quoted = vec![b'"'];
    // an unescaped quote cannot occur in a body (it would have ended it); a body of a raw
    // name may not contain one either. Re-use the reference JSON string reader.
    quoted.extend_from_slice(body);
    quoted.push(b'"');
    match crate::textref::ref_parse(&quoted, crate::textref::Mode::Relaxed) {
        Ok(crate::model::M::Str(s)) => Ok(s),
        _ => Err(()),
    }
}
/// length of an escape starting at body[i] == '\\' by the scanners' positional rule
fn escape_len(b: &[u8], i: usize) -> Option<usize> {
    if i + 1 >= b.len() {
        return None;
    }
    if b[i + 1] == b'u' {
        if i + 5 >= b.len() {
            return None;
        }
        if b[i + 2] == b'{' {
            if i + 7 >= b.len() {
                return None;
            }
            Some(8)
        } else {
            Some(6)
        }
    } else {
        Some(2)
    }
}

thread_local! {
    /// set when the last reference parse met a construct whose reading is unspecified
    static UNSPECIFIED: std::cell::Cell<bool> = const { std::cell::Cell::new(false) };
}

pub fn ref_key_paths(b: &[u8]) -> Result<Vec<KP>, ()> {
    UNSPECIFIED.with(|u| u.set(false));
    ref_key_paths_inner(b)
}

fn ref_key_paths_inner(b: &[u8]) -> Result<Vec<KP>, ()> {
    let mut i = 0;
    let skip = |i: &mut usize| {
        while *i < b.len() && is_ws(b[*i]) {
            *i += 1;
        }
    };
    skip(&mut i);
    if b.get(i) != Some(&b'{') {
        return Err(());
    }
    i += 1;
    let mut out = vec![];
    skip(&mut i);
    if b.get(i) == Some(&b'}') {
        i += 1;
        skip(&mut i);
        return if i == b.len() { Ok(out) } else { Err(()) };
    }
    loop {
        skip(&mut i);
        let c = *b.get(i).ok_or(())?;
        if c == b'+' || c == b'-' || c.is_ascii_digit() {
            let s = i;
            if c == b'+' || c == b'-' {
                i += 1;
            }
            let d0 = i;
            while i < b.len() && b[i].is_ascii_digit() {
                i += 1;
            }
            if i == d0 {
                return Err(()); // a bare sign
            }
            let txt = std::str::from_utf8(&b[s..i]).unwrap();
            let v: i32 = txt.trim_start_matches('+').parse().map_err(|_| ())?;
            out.push(KP::Index(v));
        } else if c == b'"' {
            i += 1;
            let s = i;
            loop {
                match b.get(i) {
                    None => return Err(()),
                    Some(b'"') => break,
                    Some(b'\\') => i += escape_len(b, i).ok_or(())?,
                    Some(_) => i += 1,
                }
                if i > b.len() {
                    return Err(());
                }
            }
            out.push(KP::Quoted(decode_body(&b[s..i])?));
            i += 1;
        } else {
            let s = i;
            while i < b.len() && !is_name_terminator(b[i]) {
                if b[i] == b'\\' {
                    i += escape_len(b, i).ok_or(())?;
                } else {
                    i += 1;
                }
            }
            if i == s || i > b.len() {
                return Err(());
            }
            let body = &b[s..i];
            let name = decode_body(body)?;
            // an escaped first character: a digit is still a digit (names do not start with
            // one); an escaped sign is a corner the statement does not settle
            match name.as_bytes().first() {
                Some(c) if c.is_ascii_digit() => return Err(()),
                Some(b'+') | Some(b'-') => UNSPECIFIED.with(|u| u.set(true)),
                _ => {}
            }
            out.push(KP::Name(name));
        }
        skip(&mut i);
        match b.get(i) {
            Some(b',') => i += 1,
            Some(b'}') => {
                i += 1;
                skip(&mut i);
                return if i == b.len() { Ok(out) } else { Err(()) };
            }
            _ => return Err(()),
        }
    }
}

const TOKENS: &[&str] = &[
    "{", "}", ",", "\"", "\\", "\\u", "\\u{", "a", "key", "1", "-1", "+1", "2147483648", " ", "\t", "\n", "\"a\"", "\"\"", "\"abc", "\\\"", "测",
    "D83D", "\\uD83D\\uDC8E", "'", "-", "+", ".", "[", "]", "$",
];

pub fn check_raw(b: &Bytes, obs: &mut Obs) -> Result<(), String> {
    obs.nt();
    obs.ident = Some(crate::model::hex(&b.0));
    let r = parse(&b.0)?;
    obs.label(if r.is_ok() { "raw-accepted" } else { "raw-rejected" });
    // differential: accepted exactly when it is a brace list of the documented form, with
    // the same elements
    let want = ref_key_paths(&b.0);
    if UNSPECIFIED.with(|u| u.get()) {
        obs.label("unspecified-escaped-sign");
        return Ok(());
    }
    match (&r, &want) {
        (Ok(g), Ok(w)) if g == w => Ok(()),
        (Err(_), Err(())) => Ok(()),
        (Ok(g), Ok(w)) => Err(format!("{:?} parses as {g:?}, the documented reading is {w:?}", String::from_utf8_lossy(&b.0))),
        (Ok(g), Err(())) => Err(format!("{:?} is not a key path of the documented form but was accepted as {g:?}", String::from_utf8_lossy(&b.0))),
        (Err(e), Ok(w)) => Err(format!("{:?} is a key path denoting {w:?} but was rejected ({e})", String::from_utf8_lossy(&b.0))),
    }
}

fn run_raw(ctx: &mut Ctx) {
    let cases = ctx.share(ctx.tier.pick(500_000, 5_000_000));
    let soup = vec(0..TOKENS.len(), 0..10).prop_map(|ix| Bytes(ix.into_iter().flat_map(|i| TOKENS[i].bytes()).collect()));
    let braced = vec(0..TOKENS.len(), 0..8).prop_map(|ix| {
        let mut v = vec![b'{'];
        v.extend(ix.into_iter().flat_map(|i| TOKENS[i].bytes()));
        v.push(b'}');
        Bytes(v)
    });
    let raw = vec(any::<u8>(), 0..16).prop_map(Bytes);
    run_strategy(ctx, "C16", "raw", cases, prop_oneof![3 => soup, 3 => braced, 1 => raw], check_raw);
}
