//! C16 — key-path syntax parses to its meaning, prints back faithfully and never panics.

use super::{replay_with, Prop, Sub};
use crate::engine::{nopanic, pick, run_strategy, Ctx, Obs};
use crate::gen::arb_string;
use crate::jser::Bytes;
use crate::pathmodel::raw_name_ok;
use crate::treefn::KP;
use jsonb::keypath::{parse_key_paths, KeyPath};
use proptest::collection::vec;
use proptest::prelude::*;

pub fn prop() -> Prop {
    Prop {
        id: "C16",
        title: "Key-path syntax parses to its meaning, prints back faithfully and never panics",
        rule: "lists: 0-6 elements (Index over the whole i32 range with optional '+', QuotedName with every \
               escape form incl. the empty name, Name over the name alphabet incl. non-ASCII) printed with \
               every spacing variant (space, tab, CR, LF around braces, elements and commas); the parse must \
               return exactly the intended elements, and parse(to_string(kp)) == kp when names need no escapes. \
               reject: renderings made invalid by construction (missing brace, unterminated quote, trailing or \
               doubled comma, junk after the closing brace, two lists, a digit string that overflows i32, a name \
               starting with a digit or sign). raw: token soups and raw bytes must never panic. Non-trivial = \
               list with >= 2 elements of >= 2 kinds, or any reject case. Distinct = distinct input text.",
        assumptions: &["the printer in this file emits only forms of the documented brace-list grammar"],
        subs: vec![
            Sub { name: "lists", run: run_lists, replay: |j| replay_with::<ListCase>(j, check_list) },
            Sub { name: "reject", run: run_reject, replay: |j| replay_with::<String>(j, check_reject) },
            Sub { name: "raw", run: run_raw, replay: |j| replay_with::<Bytes>(j, check_raw) },
        ],
    }
}

crate::jser_struct! {
    pub struct ListCase {
        pub elems: Vec<KP>,
        pub style: Vec<u16>,
    }
}

fn from_lib(k: &KeyPath) -> KP {
    match k {
        KeyPath::Index(i) => KP::Index(*i),
        KeyPath::Name(n) => KP::Name(n.to_string()),
        KeyPath::QuotedName(n) => KP::Quoted(n.to_string()),
    }
}

fn parse(text: &[u8]) -> Result<Result<Vec<KP>, String>, String> {
    nopanic(&format!("parse_key_paths({:?})", String::from_utf8_lossy(text)), || {
        parse_key_paths(text).map(|k| k.paths.iter().map(from_lib).collect()).map_err(|e| format!("{e:?}"))
    })
}

struct St<'a> {
    ch: &'a [u16],
    at: usize,
}
impl<'a> St<'a> {
    fn next(&mut self) -> u16 {
        if self.ch.is_empty() {
            return 0;
        }
        let v = self.ch[self.at % self.ch.len()];
        self.at += 1;
        v
    }
    fn ws(&mut self) -> &'static str {
        ["", "", " ", "  ", "\t", "\n", "\r", "\r\n", " \t\n"][pick(self.next(), 9)]
    }
}

fn quote(s: &str, st: &mut St) -> String {
    let mut out = String::from("\"");
    for c in s.chars() {
        let sel = st.next();
        match c {
            '"' => out.push_str("\\\""),
            '\\' => out.push_str("\\\\"),
            '\n' if sel % 2 == 0 => out.push_str("\\n"),
            '\t' if sel % 2 == 0 => out.push_str("\\t"),
            '\r' if sel % 2 == 0 => out.push_str("\\r"),
            '\u{8}' if sel % 2 == 0 => out.push_str("\\b"),
            '\u{c}' if sel % 2 == 0 => out.push_str("\\f"),
            '/' if sel % 3 == 0 => out.push_str("\\/"),
            c if (c as u32) < 0x10000 && sel % 8 == 7 => {
                if sel & 0x100 != 0 {
                    out.push_str(&format!("\\u{:04X}", c as u32))
                } else {
                    out.push_str(&format!("\\u{{{:04x}}}", c as u32))
                }
            }
            c if (c as u32) >= 0x10000 && sel % 8 == 7 => {
                let v = c as u32 - 0x10000;
                out.push_str(&format!("\\u{:04x}\\u{:04X}", 0xD800 + (v >> 10), 0xDC00 + (v & 0x3FF)));
            }
            c => out.push(c),
        }
    }
    out.push('"');
    out
}

pub fn render(elems: &[KP], style: &[u16]) -> String {
    let mut st = St { ch: style, at: 0 };
    let mut out = String::new();
    out.push_str(st.ws());
    out.push('{');
    if elems.is_empty() {
        out.push_str(st.ws());
    }
    for (i, e) in elems.iter().enumerate() {
        if i > 0 {
            out.push(',');
        }
        out.push_str(st.ws());
        match e {
            KP::Index(v) => {
                if *v >= 0 && st.next() % 4 == 0 {
                    out.push('+');
                }
                out.push_str(&v.to_string());
            }
            KP::Quoted(s) => out.push_str(&quote(s, &mut st)),
            KP::Name(s) => out.push_str(s),
        }
        out.push_str(st.ws());
    }
    out.push('}');
    out.push_str(st.ws());
    out
}

/// a plain name: name characters, not starting with a digit or a sign
fn name_ok(s: &str) -> bool {
    raw_name_ok(s) && !s.chars().next().unwrap().is_ascii_digit()
}

pub fn check_list(c: &ListCase, obs: &mut Obs) -> Result<(), String> {
    let text = render(&c.elems, &c.style);
    obs.ident = Some(text.clone());
    let kinds = c.elems.iter().map(|e| std::mem::discriminant(e)).collect::<Vec<_>>();
    obs.nt_if(c.elems.len() >= 2 && kinds.iter().any(|k| *k != kinds[0]));
    obs.label_if(c.elems.is_empty(), "empty-list");
    let got = parse(text.as_bytes())?.map_err(|e| format!("{text:?} is a key path of the documented form but was rejected ({e}); intended {:?}", c.elems))?;
    if got != c.elems {
        return Err(format!("{text:?} parses as {got:?}, intended {:?}", c.elems));
    }
    // print / parse
    let plain = c.elems.iter().all(|e| match e {
        KP::Quoted(s) => !s.contains(['"', '\\']) && !s.chars().any(|c| c.is_control()),
        _ => true,
    });
    if plain {
        let printed = nopanic("Display for KeyPaths", || format!("{}", parse_key_paths(text.as_bytes()).unwrap()))?;
        let again = parse(printed.as_bytes())?;
        if again.as_ref().ok() != Some(&c.elems) {
            return Err(format!("{text:?} prints as {printed:?}, which parses back as {again:?}; elements were {:?}", c.elems));
        }
        obs.label("roundtrip-checked");
    }
    Ok(())
}

fn arb_elem() -> BoxedStrategy<KP> {
    let names = ["a", "b", "key", "k1", "x_y", "测试", "Z", "e9", "_1", "a#b", "né"];
    prop_oneof![
        2 => prop_oneof![any::<i32>(), -3i32..4, Just(i32::MIN), Just(i32::MAX)].prop_map(KP::Index),
        2 => prop_oneof![arb_string(), Just(String::new()), Just("12".to_string()), Just("-1".to_string())].prop_map(KP::Quoted),
        2 => (0..names.len()).prop_map(move |i| KP::Name(names[i].to_string())),
        1 => arb_string().prop_filter("name characters only", |s| name_ok(s)).prop_map(KP::Name),
    ]
    .boxed()
}

fn arb_list() -> BoxedStrategy<ListCase> {
    (vec(arb_elem(), 0..6), vec(any::<u16>(), 0..10)).prop_map(|(elems, style)| ListCase { elems, style }).boxed()
}

fn run_lists(ctx: &mut Ctx) {
    let cases = ctx.share(ctx.tier.pick(500_000, 5_000_000));
    run_strategy(ctx, "C16", "lists", cases, arb_list(), check_list);
}

pub fn check_reject(text: &String, obs: &mut Obs) -> Result<(), String> {
    obs.nt();
    obs.ident = Some(text.clone());
    if let Ok(k) = parse(text.as_bytes())? {
        return Err(format!("{text:?} is not a key path of the documented form but was accepted as {k:?}"));
    }
    Ok(())
}

fn run_reject(ctx: &mut Ctx) {
    let cases = ctx.share(ctx.tier.pick(200_000, 2_000_000));
    let strat = (arb_list(), any::<u16>(), 0u8..9).prop_filter_map("nothing to corrupt", |(l, sel, kind)| {
        // keep quoted content free of braces, commas and quotes so the corruption is unambiguous
        let clean = l.elems.iter().all(|e| match e {
            KP::Quoted(s) => !s.contains(['"', '\\', '{', '}', ',']),
            _ => true,
        });
        if !clean {
            return None;
        }
        let t = render(&l.elems, &l.style);
        Some(match kind {
            0 => t.replacen('{', "", 1),
            1 => {
                let i = t.rfind('}')?;
                format!("{}{}", &t[..i], &t[i + 1..])
            }
            2 => {
                let i = t.find('"')?;
                format!("{}{}", &t[..i], &t[i + 1..])
            }
            3 => {
                if l.elems.is_empty() {
                    return None;
                }
                let i = t.rfind('}')?;
                format!("{},{}", &t[..i], &t[i..])
            }
            4 => format!("{t}{}", ["x", "}", "{", ",", "\"", "1"][pick(sel, 6)]),
            5 => format!("{t}{t}"),
            6 => format!("{{{}}}", ["2147483648", "-2147483649", "99999999999", "+2147483648"][pick(sel, 4)]),
            7 => format!("{{{}}}", ["1a", "-a", "+a", "9z", "-", "+"][pick(sel, 6)]),
            _ => {
                let i = t.find(',')?;
                format!("{},{}", &t[..i], &t[i..])
            }
        })
    });
    run_strategy(ctx, "C16", "reject", cases, strat, check_reject);
}

const TOKENS: &[&str] = &[
    "{", "}", ",", "\"", "\\", "\\u", "\\u{", "a", "key", "1", "-1", "+1", "2147483648", " ", "\t", "\n", "\"a\"", "\"\"", "\"abc", "\\\"", "测",
    "D83D", "\\uD83D\\uDC8E", "'", "-", "+", ".", "[", "]", "$",
];

pub fn check_raw(b: &Bytes, obs: &mut Obs) -> Result<(), String> {
    obs.nt();
    obs.ident = Some(crate::model::hex(&b.0));
    let r = parse(&b.0)?;
    obs.label(if r.is_ok() { "raw-accepted" } else { "raw-rejected" });
    Ok(())
}

fn run_raw(ctx: &mut Ctx) {
    let cases = ctx.share(ctx.tier.pick(500_000, 5_000_000));
    let soup = vec(0..TOKENS.len(), 0..10).prop_map(|ix| Bytes(ix.into_iter().flat_map(|i| TOKENS[i].bytes()).collect()));
    let braced = vec(0..TOKENS.len(), 0..8).prop_map(|ix| {
        let mut v = vec![b'{'];
        v.extend(ix.into_iter().flat_map(|i| TOKENS[i].bytes()));
        v.push(b'}');
        Bytes(v)
    });
    let raw = vec(any::<u8>(), 0..16).prop_map(Bytes);
    run_strategy(ctx, "C16", "raw", cases, prop_oneof![3 => soup, 3 => braced, 1 => raw], check_raw);
}
