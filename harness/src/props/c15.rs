//! C15 — selection modes and path predicates are mutually consistent.

use super::c08::{show_items, split_items};
use super::{replay_with, Prop, Sub};
use crate::engine::{nopanic, run_strategy, Ctx, Obs};
use crate::gen::TreeParams;
use crate::jser::Bytes;
use crate::model::*;
use crate::pathmodel::*;
use jsonb::jsonpath::{parse_json_path, Mode, Selector};
use proptest::collection::vec;
use proptest::prelude::*;

pub fn prop() -> Prop {
    Prop {
        id: "C15",
        title: "Selection modes and path predicates are mutually consistent",
        rule: "the (document, path) generator of C08 (non-predicate and predicate paths); each pair is evaluated \
               through get_by_path, get_by_path_first, get_by_path_array, path_exists, path_match and \
               Selector::select in all four modes, starting from empty and from pre-filled data/offsets buffers. \
               Purely relational oracle on the library's own answers: First = first item of All or nothing; \
               Array = one array holding exactly the All items; Mixed = Array when >= 2 items else All; existence \
               <=> All non-empty; convenience functions = the corresponding Selector calls; offsets delimit the \
               items one by one and every item is canonical JSONB; predicate paths yield the same single boolean \
               in every mode, equal to path_match, with existence true; path_match on a non-predicate path is \
               InvalidJsonPathPredicate. Non-trivial = non-predicate path selecting >= 2 items of which one is a \
               container, or a predicate path.",
        assumptions: &["none beyond the strict validator (canonical JSONB) in model.rs"],
        subs: vec![Sub { name: "modes", run, replay: |j| replay_with::<Case>(j, check) }],
    }
}

crate::jser_struct! {
    pub struct Case {
        pub pc: PathCase,
        pub prefix: Bytes,
        pub offs: Vec<u64>,
    }
}

type Out = Result<(Vec<u8>, Vec<u64>), String>;

fn sel(root: &[u8], text: &[u8], mode: Mode, pre: &(Vec<u8>, Vec<u64>)) -> Result<Out, String> {
    let (mut d, mut o) = pre.clone();
    let r = nopanic(&format!("Selector::select({mode:?})"), || {
        Selector::new(parse_json_path(text).unwrap(), mode.clone()).select(root, &mut d, &mut o)
    })?;
    Ok(match r {
        Ok(()) => {
            // strip the prior content again
            if d.len() < pre.0.len() || d[..pre.0.len()] != pre.0[..] || o.len() < pre.1.len() || o[..pre.1.len()] != pre.1[..] {
                return Err(format!("select({mode:?}) modified prior buffer content"));
            }
            let base = pre.0.len() as u64;
            Ok((d[pre.0.len()..].to_vec(), o[pre.1.len()..].iter().map(|x| x.wrapping_sub(base)).collect()))
        }
        Err(e) => Err(format!("{e:?}")),
    })
}

pub fn check(c: &Case, obs: &mut Obs) -> Result<(), String> {
    let doc = &c.pc.doc;
    let root = doc.enc();
    let text = c.pc.path.as_bytes();
    let parsed = nopanic("parse_json_path", || parse_json_path(text).map(|p| (p.is_predicate(), from_lib(&p))))?;
    let (is_pred, ast) = match parsed {
        Err(_) => {
            obs.label("path-rejected-by-parser");
            return Ok(());
        }
        Ok((ip, a)) => (ip, a),
    };
    let ctx = |what: String| format!("{what}\n  document {doc:?}\n  path {:?} ({ast:?})", c.pc.path);
    let p = || parse_json_path(text).unwrap();
    // the convenience functions also take the document as JSON text: same answers as for the
    // encoding of that text
    if doc.all_finite() && doc.size() < 3000 {
        let du = doc.unsigned_norm();
        let (ru, tu) = (du.enc(), crate::textref::model_text(&du, &[(root.len() as u16).wrapping_mul(13), 3, 8]));
        type F = fn(&[u8], jsonb::jsonpath::JsonPath, &mut Vec<u8>, &mut Vec<u64>) -> Result<(), jsonb::Error>;
        for (name, f) in [("get_by_path", jsonb::get_by_path as F), ("get_by_path_first", jsonb::get_by_path_first as F), ("get_by_path_array", jsonb::get_by_path_array as F)] {
            let run = |d: &[u8]| -> Result<(bool, Vec<u8>, Vec<u64>), String> {
                let (mut data, mut offs) = (Vec::new(), Vec::new());
                let r = nopanic(name, || f(d, p(), &mut data, &mut offs))?;
                Ok((r.is_ok(), if r.is_ok() { data } else { vec![] }, if r.is_ok() { offs } else { vec![] }))
            };
            let (rb, rt) = (run(&ru)?, run(&tu)?);
            if rb != rt {
                return Err(ctx(format!(
                    "{name} on the JSON text {:?} gives ok={} {} / {:?}, on its encoding ok={} {} / {:?}",
                    String::from_utf8_lossy(&tu),
                    rt.0,
                    hex(&rt.1),
                    rt.2,
                    rb.0,
                    hex(&rb.1),
                    rb.2
                )));
            }
        }
        let eb = nopanic("path_exists", || jsonb::path_exists(&ru, p()).map_err(|_| ()))?;
        let et = nopanic("path_exists(text)", || jsonb::path_exists(&tu, p()).map_err(|_| ()))?;
        let mb = nopanic("path_match", || jsonb::path_match(&ru, p()).map_err(|_| ()))?;
        let mt = nopanic("path_match(text)", || jsonb::path_match(&tu, p()).map_err(|_| ()))?;
        if eb != et || mb != mt {
            return Err(ctx(format!("path_exists / path_match on the JSON text give {et:?} / {mt:?}, on its encoding {eb:?} / {mb:?}")));
        }
        obs.label("text-form-document");
    }
    for pre in [(vec![], vec![]), (c.prefix.0.clone(), c.offs.clone())] {
        let all = sel(&root, text, Mode::All, &pre).map_err(&ctx)?;
        let first = sel(&root, text, Mode::First, &pre).map_err(&ctx)?;
        let array = sel(&root, text, Mode::Array, &pre).map_err(&ctx)?;
        let mixed = sel(&root, text, Mode::Mixed, &pre).map_err(&ctx)?;
        let exists = nopanic("path_exists", || jsonb::path_exists(&root, p()))?.map_err(|e| format!("{e:?}"));
        let sexists = nopanic("Selector::exists", || Selector::new(p(), Mode::Mixed).exists(&root))?.map_err(|e| format!("{e:?}"));
        let pmatch = nopanic("path_match", || jsonb::path_match(&root, p()))?;
        let smatch = nopanic("Selector::predicate_match", || Selector::new(p(), Mode::First).predicate_match(&root))?;
        // an evaluation error must be an error everywhere
        let (all, first, array, mixed) = match (all, first, array, mixed) {
            (Ok(a), Ok(f), Ok(r), Ok(m)) => (a, f, r, m),
            (Err(_), Err(_), Err(_), Err(_)) => {
                obs.label("evaluation-error");
                continue;
            }
            (a, f, r, m) => {
                return Err(ctx(format!(
                    "modes disagree about success: All {:?}, First {:?}, Array {:?}, Mixed {:?}",
                    a.map(|_| ()),
                    f.map(|_| ()),
                    r.map(|_| ()),
                    m.map(|_| ())
                )))
            }
        };
        if pmatch != smatch {
            return Err(ctx(format!("path_match {pmatch:?} differs from Selector::predicate_match {smatch:?}")));
        }
        if exists != sexists {
            return Err(ctx(format!("path_exists {exists:?} differs from Selector::exists {sexists:?}")));
        }
        // convenience functions equal the selector calls
        for (name, mode, f) in [
            ("get_by_path", Mode::Mixed, jsonb::get_by_path as fn(&[u8], jsonb::jsonpath::JsonPath, &mut Vec<u8>, &mut Vec<u64>) -> Result<(), jsonb::Error>),
            ("get_by_path_first", Mode::First, jsonb::get_by_path_first),
            ("get_by_path_array", Mode::Array, jsonb::get_by_path_array),
        ] {
            let (mut d, mut o) = (Vec::new(), Vec::new());
            nopanic(name, || f(&root, p(), &mut d, &mut o))?.map_err(|e| ctx(format!("{name} failed with {e:?} although Selector::select succeeds")))?;
            let want = match mode {
                Mode::Mixed => &mixed,
                Mode::First => &first,
                _ => &array,
            };
            if (&d, &o) != (&want.0, &want.1) {
                return Err(ctx(format!("{name} wrote {} / {o:?}, Selector::select({mode:?}) wrote {} / {:?}", hex(&d), hex(&want.0), want.1)));
            }
        }
        if is_pred {
            obs.label("predicate");
            obs.nt();
            // every mode: the same single boolean document
            let b = match validate(&all.0) {
                Ok(M::Bool(b)) => b,
                other => return Err(ctx(format!("predicate path in All mode wrote {} = {other:?}, expected one boolean", hex(&all.0)))),
            };
            for (n, m) in [("First", &first), ("Array", &array), ("Mixed", &mixed)] {
                if m.0 != all.0 {
                    return Err(ctx(format!("predicate path: mode {n} wrote {}, mode All wrote {}", hex(&m.0), hex(&all.0))));
                }
            }
            // offsets: existing entries untouched (checked in `sel`); a new entry, if any, delimits the boolean
            for (n, m) in [("All", &all), ("First", &first), ("Array", &array), ("Mixed", &mixed)] {
                if !(m.1.is_empty() || m.1 == vec![m.0.len() as u64]) {
                    return Err(ctx(format!("predicate path: mode {n} reported offsets {:?} for {} data bytes", m.1, m.0.len())));
                }
            }
            if pmatch != Ok(b) {
                return Err(ctx(format!("predicate path selects {b} but path_match = {pmatch:?}")));
            }
            if exists != Ok(true) {
                return Err(ctx(format!("path_exists on a predicate path = {exists:?}, must be true")));
            }
            continue;
        }
        // non-predicate path
        if pmatch != Err(jsonb::Error::InvalidJsonPathPredicate) {
            return Err(ctx(format!("path_match on a non-predicate path = {pmatch:?}, must be InvalidJsonPathPredicate")));
        }
        let items = split_items(&all.0, &all.1).map_err(|e| ctx(format!("All mode: {e}")))?;
        if !all.1.windows(2).all(|w| w[0] < w[1]) {
            return Err(ctx(format!("All-mode offsets {:?} are not strictly increasing", all.1)));
        }
        for it in &items {
            check_canonical(it).map_err(|e| ctx(format!("All-mode item is not canonical JSONB: {e}")))?;
        }
        // First
        let want_first: Vec<Vec<u8>> = items.iter().take(1).cloned().collect();
        let got_first = split_items(&first.0, &first.1).map_err(|e| ctx(format!("First mode: {e}")))?;
        if got_first != want_first {
            return Err(ctx(format!("First mode returned {}, All mode returned {}", show_items(&got_first), show_items(&items))));
        }
        // Array
        let arr_model = M::Arr(items.iter().map(|b| validate(b).unwrap()).collect());
        if array.0 != arr_model.enc() {
            let shown = validate(&array.0).map(|m| format!("{m:?}")).unwrap_or_else(|e| format!("non-canonical bytes {} ({e})", hex(&array.0)));
            return Err(ctx(format!("Array mode returned {shown}, All mode returned the items {}", show_items(&items))));
        }
        if array.1 != vec![array.0.len() as u64] {
            return Err(ctx(format!("Array mode reported offsets {:?} for one array of {} bytes", array.1, array.0.len())));
        }
        let av = nopanic("array_values", || jsonb::array_values(&array.0))?;
        if av.as_ref() != Some(&items) {
            return Err(ctx("array_values(Array-mode result) is not the All-mode item list".to_string()));
        }
        // Mixed
        let want_mixed = if items.len() >= 2 { &array } else { &all };
        if &mixed != want_mixed {
            return Err(ctx(format!(
                "Mixed mode wrote {} / {:?}; with {} item(s) it must equal {} mode: {} / {:?}",
                hex(&mixed.0),
                mixed.1,
                items.len(),
                if items.len() >= 2 { "Array" } else { "All" },
                hex(&want_mixed.0),
                want_mixed.1
            )));
        }
        // existence
        if exists != Ok(!items.is_empty()) {
            return Err(ctx(format!("path_exists = {exists:?} but All mode returned {} item(s)", items.len())));
        }
        obs.label_if(items.len() >= 2, ">=2-items");
        obs.label_if(items.is_empty(), "no-items");
        obs.nt_if(items.len() >= 2 && items.iter().any(|b| b[0] != 0x20));
    }
    Ok(())
}

fn run(ctx: &mut Ctx) {
    let cases = ctx.share(ctx.tier.pick(400_000, 3_000_000));
    let p = ctx.tier.pick(TreeParams::quick(), TreeParams::thorough()).with_big(1);
    let strat = (arb_path_for(p), vec(any::<u8>(), 0..24), vec(0u64..64, 0..3)).prop_map(|(pc, prefix, offs)| Case { pc, prefix: Bytes(prefix), offs });
    run_strategy(ctx, "C15", "modes", cases, strat, check);
}
