//! C12 — containment follows the PostgreSQL @> rules, using the same equality as compare.

use super::{replay_with, Prop, Sub};
use crate::cmpmodel::*;
use crate::engine::{nopanic, run_strategy, Ctx, Obs};
use crate::gen::*;
use crate::model::*;
use crate::textref::model_text;
use proptest::collection::vec;
use proptest::prelude::*;
use std::cmp::Ordering;

pub fn prop() -> Prop {
    Prop {
        id: "C12",
        title: "Containment follows the PostgreSQL @> rules, using the same equality as compare",
        rule: "chains (a, b, c) with b derived from a and c from b by containment-preserving mutations (drop \
               members/elements at any depth, reorder and duplicate array elements, re-type numbers 1 <-> 1.0 \
               <-> Int64(1), unwrap a top-level one-element array) mixed with containment-breaking ones (change \
               a leaf, add a member, nest deeper/shallower, change a kind) and independent pairs; contains() on \
               JSONB and on generated JSON text is compared with the model, and reflexivity, transitivity and \
               scalar-equality are checked on the library's answers. Non-trivial = model answer true with \
               b != a, or false with b derived from a; pairs involving a re-typed number are counted.",
        assumptions: &["cmpmodel.rs contains() (written from the statement) is the documented @> relation"],
        subs: vec![Sub { name: "chains", run, replay: |j| replay_with::<Case>(j, check) }],
    }
}

crate::jser_struct! {
    pub struct Case {
        pub a: M,
        pub b: M,
        pub c: M,
        pub derived: bool,
        pub sels: Vec<u16>,
    }
}

fn lib_contains(x: &[u8], y: &[u8]) -> Result<bool, String> {
    nopanic("contains", || jsonb::contains(x, y))
}

pub fn check(c: &Case, obs: &mut Obs) -> Result<(), String> {
    let docs = [&c.a, &c.b, &c.c];
    let enc: Vec<Vec<u8>> = docs.iter().map(|d| d.enc()).collect();
    let text: Vec<Option<Vec<u8>>> = docs.iter().map(|d| if d.all_finite() { Some(model_text(d, &c.sels)) } else { None }).collect();
    let mut r = [[false; 3]; 3];
    for i in 0..3 {
        for j in 0..3 {
            let want = contains(docs[i], docs[j]);
            let got = lib_contains(&enc[i], &enc[j])?;
            r[i][j] = got;
            if got != want {
                return Err(format!("contains(x, y) = {got}, the @> rules give {want}\n  x = {:?}\n  y = {:?}", docs[i], docs[j]));
            }
            for (ti, tj) in [(true, false), (false, true), (true, true)] {
                let (x, y) = match (ti, tj, &text[i], &text[j]) {
                    (true, false, Some(t), _) => (t.as_slice(), enc[j].as_slice()),
                    (false, true, _, Some(t)) => (enc[i].as_slice(), t.as_slice()),
                    (true, true, Some(t), Some(u)) => (t.as_slice(), u.as_slice()),
                    _ => continue,
                };
                let g = lib_contains(x, y)?;
                if g != want {
                    return Err(format!(
                        "contains with text operand(s) (left text: {ti}, right text: {tj}) = {g}, the @> rules give {want}\n  x = {:?} as {:?}\n  y = {:?} as {:?}",
                        docs[i],
                        String::from_utf8_lossy(x),
                        docs[j],
                        String::from_utf8_lossy(y)
                    ));
                }
            }
            if docs[i].is_scalar() && docs[j].is_scalar() {
                let eq = nopanic("compare", || jsonb::compare(&enc[i], &enc[j]))?.map_err(|e| format!("{e:?}"))? == Ordering::Equal;
                if eq != got {
                    return Err(format!("scalars: contains = {got} but compare says equal = {eq}\n  x = {:?}\n  y = {:?}", docs[i], docs[j]));
                }
            }
        }
    }
    for i in 0..3 {
        if !r[i][i] {
            return Err(format!("contains(x, x) is false for x = {:?}", docs[i]));
        }
        for j in 0..3 {
            for k in 0..3 {
                if r[i][j] && r[j][k] && !r[i][k] {
                    return Err(format!("transitivity: x @> y and y @> z but not x @> z\n  x = {:?}\n  y = {:?}\n  z = {:?}", docs[i], docs[j], docs[k]));
                }
            }
        }
    }
    let t_ab = r[0][1];
    let retyped = has_equal_but_different_numbers(&c.a, &c.b) || (t_ab && c.a.any(|x| matches!(x, M::Num(_))) && !enc[0].windows(2).any(|_| false) && {
        // a contained b whose number encodings differ from a's somewhere
        let na: Vec<Vec<u8>> = nums(&c.a);
        nums(&c.b).iter().any(|n| !na.contains(n))
    });
    obs.label(if t_ab { "a-contains-b" } else { "a-does-not-contain-b" });
    obs.label_if(retyped && t_ab, "true-with-retyped-number");
    obs.label_if(r[0][1] && r[1][2] && !c.b.ident_eq(&c.c), "chain-a-b-c");
    obs.nt_if((t_ab && !c.a.ident_eq(&c.b)) || (!t_ab && c.derived));
    Ok(())
}

fn nums(m: &M) -> Vec<Vec<u8>> {
    fn go(m: &M, out: &mut Vec<Vec<u8>>) {
        match m {
            M::Num(n) => out.push(n.enc_vec()),
            M::Arr(a) => a.iter().for_each(|x| go(x, out)),
            M::Obj(o) => o.values().for_each(|x| go(x, out)),
            _ => {}
        }
    }
    let mut v = vec![];
    go(m, &mut v);
    v
}

pub fn arb_case(p: TreeParams) -> BoxedStrategy<Case> {
    (arb_doc(p), arb_doc(p), vec(arb_mutation(), 1..4), vec(arb_mutation(), 1..3), 0u8..10, vec(any::<u16>(), 1..5))
        .prop_map(|(a, ind, m1, m2, mode, sels)| {
            let (b, c, derived) = match mode {
                0 => (ind.clone(), apply_mutations(&ind, &m2, MutKind::Shrinking), false),
                1..=4 => {
                    let b = apply_mutations(&a, &m1, MutKind::Shrinking);
                    let c = apply_mutations(&b, &m2, MutKind::Shrinking);
                    (b, c, true)
                }
                5 | 6 => {
                    // mostly preserving, one breaking step
                    let b = apply_mutations(&a, &m1, MutKind::Shrinking);
                    let b = apply_mutations(&b, &m2[..1], MutKind::Breaking);
                    let c = apply_mutations(&b, &m2, MutKind::Shrinking);
                    (b, c, true)
                }
                7 => {
                    // top-level array against one of its scalar elements / a one-element array unwrapped
                    let b = match &a {
                        M::Arr(x) if !x.is_empty() => x[crate::engine::pick(sels[0], x.len())].clone(),
                        x => M::Arr(vec![x.clone()]),
                    };
                    let c = apply_mutations(&b, &m2, MutKind::Shrinking);
                    (b, c, true)
                }
                _ => {
                    let b = apply_mutations(&a, &m1, MutKind::Any);
                    let c = apply_mutations(&b, &m2, MutKind::Any);
                    (b, c, true)
                }
            };
            Case { a, b, c, derived, sels }
        })
        .boxed()
}

fn run(ctx: &mut Ctx) {
    let cases = ctx.share(ctx.tier.pick(150_000, 3_000_000));
    let p = ctx.tier.pick(TreeParams::quick(), TreeParams::thorough()).with_big(1);
    run_strategy(ctx, "C12", "chains", cases, arb_case(p), check);
}
