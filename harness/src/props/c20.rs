//! C20 — deep nesting and extreme arguments end in a result or an error, never a crash.

use super::{replay_with, Prop, Sub};
use crate::engine::{guard, nopanic, Ctx, Obs};
use crate::jser::Jser;
use crate::known;
use crate::model::*;
use crate::pathmodel as pm;
use crate::treefn::{self as t, KP};
use std::process::{Command, Stdio};

pub fn prop() -> Prop {
    Prop {
        id: "C20",
        title: "Deep nesting and extreme arguments end in a result or an error, never a crash",
        rule: "depth: operations {parse_value on nested arrays / objects / mixed, Value::to_vec, from_slice, \
               to_string, to_pretty_string, compare, convert_to_comparable, get_by_path with a path as deep as the \
               document (parser included), contains, strip_nulls, to_serde_json, traverse_check_string, \
               array_values, get_by_keypath, delete_by_keypath, concat} x nesting depths on a doubling schedule 1..2^19 plus 255/256/257, \
               1000, 10^4, 10^5, documents built iteratively by the harness (text by repetition, JSONB by length \
               arithmetic, Value by a loop and mem::forget so that dropping is not measured); each probe runs in \
               its own child process inside a thread with an explicit 8 MiB stack (2 and 64 MiB too in thorough); \
               a signal death or a panic is a failure, classified against the known findings per operation. \
               extreme: every function with an index/position argument x {i32::MIN, MIN+1, -len-1, -len, -1, 0, \
               len-1, len, len+1, MAX-1, MAX} (usize extremes for get_by_index) x arrays of length 0-5, as JSONB \
               and as text, results compared with the tree model computed in i64/i128, overflow checks on. \
               numerals: every index / offset / literal position of a JSONPath text and every element of a key \
               path text filled with the numerals at the ends of the i32, u32, i64 and u64 ranges (+-1, with and \
               without a sign, 26 digits): parsing, and evaluation on arrays of length 0-3 when it parses, must \
               return (overflow checks on). \
               Non-trivial = probe at depth >= 1000, or an argument at an end of the i32 range.",
        assumptions: &["an 8 MiB thread stack stands for the platform's default main-thread stack"],
        subs: vec![
            Sub { name: "depth", run: run_depth, replay: |j| replay_with::<Probe>(j, check_probe) },
            Sub { name: "extreme", run: run_extreme, replay: |j| replay_with::<Extreme>(j, check_extreme) },
            Sub { name: "numerals", run: run_numerals, replay: |j| replay_with::<(String, u64)>(j, check_numeral_text) },
        ],
    }
}

crate::jser_struct! {
    pub struct Probe {
        pub op: String,
        pub depth: u64,
        pub stack_mb: u64,
    }
}

pub const OPS: &[&str] = &[
    "parse_value_arrays",
    "parse_value_objects",
    "parse_value_mixed",
    "to_vec",
    "from_slice",
    "to_string",
    "to_pretty_string",
    "compare",
    "convert_to_comparable",
    "get_by_path",
    "contains",
    "strip_nulls",
    "to_serde_json",
    "traverse_check_string",
    "array_values",
    "get_by_keypath",
    "delete_by_keypath",
    "concat",
];

// ---- document builders (iterative) -------------------------------------------------------------

fn text_arrays(n: usize) -> Vec<u8> {
    let mut v = Vec::with_capacity(2 * n + 1);
    v.extend(std::iter::repeat(b'[').take(n));
    v.extend_from_slice(b"1");
    v.extend(std::iter::repeat(b']').take(n));
    v
}
fn text_objects(n: usize) -> Vec<u8> {
    let mut v = Vec::with_capacity(7 * n + 4);
    for _ in 0..n {
        v.extend_from_slice(b"{\"a\":");
    }
    v.extend_from_slice(b"null");
    v.extend(std::iter::repeat(b'}').take(n));
    v
}
fn text_mixed(n: usize) -> Vec<u8> {
    let mut v = Vec::new();
    for i in 0..n {
        v.extend_from_slice(if i % 2 == 0 { b"[" } else { b"{\"a\":" });
    }
    v.extend_from_slice(b"true");
    for i in (0..n).rev() {
        v.push(if i % 2 == 0 { b']' } else { b'}' });
    }
    v
}
/// n nested arrays around one null: written outermost first, lengths by arithmetic
pub fn jsonb_arrays(n: usize) -> Vec<u8> {
    let mut v = Vec::with_capacity(8 * n);
    for d in 0..n {
        v.extend_from_slice(&(ARR | 1).to_be_bytes());
        let inner = 8 * (n - 1 - d);
        let w = if d + 1 == n { J_NULL } else { J_CONT | inner as u32 };
        v.extend_from_slice(&w.to_be_bytes());
    }
    v
}
/// n nested objects {"a": ...} around one null
pub fn jsonb_objects(n: usize) -> Vec<u8> {
    let mut v = Vec::with_capacity(13 * n);
    for d in 0..n {
        v.extend_from_slice(&(OBJ | 1).to_be_bytes());
        v.extend_from_slice(&(J_STR | 1).to_be_bytes());
        let inner = 13 * (n - 1 - d);
        let w = if d + 1 == n { J_NULL } else { J_CONT | inner as u32 };
        v.extend_from_slice(&w.to_be_bytes());
        v.push(b'a');
    }
    v
}
fn value_arrays(n: usize) -> jsonb::Value<'static> {
    let mut v = jsonb::Value::Null;
    for _ in 0..n {
        v = jsonb::Value::Array(vec![v]);
    }
    v
}

// ---- the child ------------------------------------------------------------------------------------

/// `vcheck --probe <op> <depth> <stack_mb>`: prints one line "RESULT ok|err|panic <detail>"
pub fn probe_main(args: &[String]) -> i32 {
    if args.len() < 3 {
        return 2;
    }
    let op = args[0].clone();
    let depth: usize = args[1].parse().unwrap_or(1);
    let stack_mb: usize = args[2].parse().unwrap_or(8);
    crate::engine::install_panic_hook();
    let h = std::thread::Builder::new().stack_size(stack_mb << 20).spawn(move || {
        let r = guard(|| run_op(&op, depth));
        match r {
            Ok(Ok(s)) => println!("RESULT ok {s}"),
            Ok(Err(e)) => println!("RESULT err {e}"),
            Err(p) => println!("RESULT panic {}", p.describe()),
        }
    });
    match h {
        Ok(j) => {
            let _ = j.join();
            0
        }
        Err(_) => 2,
    }
}

fn run_op(op: &str, n: usize) -> Result<String, String> {
    let e = |x: jsonb::Error| format!("{x:?}");
    match op {
        "parse_value_arrays" | "parse_value_objects" | "parse_value_mixed" => {
            let t = match op {
                "parse_value_arrays" => text_arrays(n),
                "parse_value_objects" => text_objects(n),
                _ => text_mixed(n),
            };
            let v = jsonb::parse_value(&t).map_err(e)?;
            std::mem::forget(v);
            Ok("parsed".into())
        }
        "to_vec" => {
            let v = value_arrays(n);
            let b = v.to_vec();
            std::mem::forget(v);
            Ok(format!("{} bytes", b.len()))
        }
        "from_slice" => {
            let b = if n % 2 == 0 { jsonb_arrays(n) } else { jsonb_objects(n) };
            let v = jsonb::from_slice(&b).map_err(e)?;
            std::mem::forget(v);
            Ok("decoded".into())
        }
        "to_string" => Ok(format!("{} chars", jsonb::to_string(&jsonb_objects(n)).len())),
        "to_pretty_string" => {
            // quadratic output (indentation): bounded separately by the schedule
            Ok(format!("{} chars", jsonb::to_pretty_string(&jsonb_arrays(n)).len()))
        }
        "compare" => {
            let (a, b) = (jsonb_arrays(n), jsonb_arrays(n));
            Ok(format!("{:?}", jsonb::compare(&a, &b).map_err(e)?))
        }
        "convert_to_comparable" => {
            let mut k = Vec::new();
            jsonb::convert_to_comparable(&jsonb_arrays(n), &mut k);
            Ok(format!("{} key bytes", k.len()))
        }
        "get_by_path" => {
            let b = jsonb_arrays(n);
            let mut p = String::from("$");
            for _ in 0..n {
                p.push_str("[0]");
            }
            let path = jsonb::jsonpath::parse_json_path(p.as_bytes()).map_err(e)?;
            let (mut d, mut o) = (Vec::new(), Vec::new());
            jsonb::get_by_path(&b, path, &mut d, &mut o).map_err(e)?;
            Ok(format!("{} bytes selected", d.len()))
        }
        "contains" => {
            let (a, b) = (jsonb_objects(n), jsonb_objects(n));
            Ok(format!("{}", jsonb::contains(&a, &b)))
        }
        "strip_nulls" => {
            let mut out = Vec::new();
            jsonb::strip_nulls(&jsonb_objects(n), &mut out).map_err(e)?;
            Ok(format!("{} bytes", out.len()))
        }
        "to_serde_json" => {
            let v = jsonb::to_serde_json(&jsonb_arrays(n)).map_err(e)?;
            std::mem::forget(v);
            Ok("converted".into())
        }
        "traverse_check_string" => Ok(format!("{}", jsonb::traverse_check_string(&jsonb_objects(n), |s| s == b"zz"))),
        "array_values" => Ok(format!("{:?}", jsonb::array_values(&jsonb_arrays(n)).map(|v| v.len()))),
        "get_by_keypath" => {
            let b = jsonb_arrays(n);
            let kp: Vec<jsonb::keypath::KeyPath> = (0..n).map(|_| jsonb::keypath::KeyPath::Index(0)).collect();
            Ok(format!("{:?}", jsonb::get_by_keypath(&b, kp.iter()).map(|v| v.len())))
        }
        "delete_by_keypath" => {
            let b = jsonb_arrays(n);
            let kp: Vec<jsonb::keypath::KeyPath> = (0..n).map(|_| jsonb::keypath::KeyPath::Index(0)).collect();
            let mut out = Vec::new();
            jsonb::delete_by_keypath(&b, kp.iter(), &mut out).map_err(e)?;
            Ok(format!("{} bytes", out.len()))
        }
        "concat" => {
            let (a, b) = (jsonb_arrays(n), jsonb_objects(n));
            let mut out = Vec::new();
            jsonb::concat(&a, &b, &mut out).map_err(e)?;
            Ok(format!("{} bytes", out.len()))
        }
        _ => Err(format!("unknown op {op}")),
    }
}

// ---- the parent side of a probe ------------------------------------------------------------------------

#[derive(Debug, PartialEq)]
pub enum Outcome {
    Ok,
    Err,
    Panic(String),
    StackOverflow(String),
    Signal(String),
    Timeout,
}

pub fn run_probe(p: &Probe) -> Outcome {
    let exe = match std::env::current_exe() {
        Ok(e) => e,
        Err(e) => return Outcome::Signal(format!("cannot find own executable: {e}")),
    };
    let child = Command::new(exe)
        .args(["--probe", &p.op, &p.depth.to_string(), &p.stack_mb.to_string()])
        .stdin(Stdio::null())
        .stdout(Stdio::piped())
        .stderr(Stdio::piped())
        .spawn();
    let child = match child {
        Ok(c) => c,
        Err(e) => return Outcome::Signal(format!("spawn failed: {e}")),
    };
    let out = match child.wait_with_output() {
        Ok(o) => o,
        Err(e) => return Outcome::Signal(format!("wait failed: {e}")),
    };
    let stdout = String::from_utf8_lossy(&out.stdout).to_string();
    let stderr = String::from_utf8_lossy(&out.stderr).to_string();
    if let Some(l) = stdout.lines().find(|l| l.starts_with("RESULT ")) {
        if l.starts_with("RESULT ok") {
            return Outcome::Ok;
        }
        if l.starts_with("RESULT err") {
            return Outcome::Err;
        }
        return Outcome::Panic(l["RESULT panic ".len().min(l.len())..].to_string());
    }
    if stderr.contains("has overflowed its stack") || stderr.contains("stack overflow") {
        return Outcome::StackOverflow(format!("{}", out.status));
    }
    Outcome::Signal(format!("{} stderr: {}", out.status, crate::engine::truncate(&stderr, 200)))
}

pub fn check_probe(p: &Probe, obs: &mut Obs) -> Result<(), String> {
    obs.nt_if(p.depth >= 1000);
    match run_probe(p) {
        Outcome::Ok => {
            obs.label("probe-ok");
            Ok(())
        }
        Outcome::Err => {
            obs.label("probe-clean-error");
            Ok(())
        }
        Outcome::StackOverflow(st) => {
            obs.label("probe-stack-overflow");
            let msg = format!("{} on a document nested {} levels deep exhausts a {} MiB stack and the process dies ({st})", p.op, p.depth, p.stack_mb);
            // one known finding per operation
            let id: &'static str = match p.op.as_str() {
                "parse_value_arrays" | "parse_value_objects" | "parse_value_mixed" => "F19-parse_value",
                "to_vec" => "F19-to_vec",
                "from_slice" => "F19-from_slice",
                "to_string" => "F19-to_string",
                "to_pretty_string" => "F19-to_pretty_string",
                "compare" => "F19-compare",
                "convert_to_comparable" => "F19-convert_to_comparable",
                "contains" => "F19-contains",
                "strip_nulls" => "F19-strip_nulls",
                "to_serde_json" => "F19-to_serde_json",
                "delete_by_keypath" => "F19-delete_by_keypath",
                _ => "F19-unlisted",
            };
            known::tolerate("C20", id, obs, msg)
        }
        Outcome::Panic(site) => {
            obs.label("probe-panic");
            let msg = format!("{} on a document nested {} levels deep panics: {site}", p.op, p.depth);
            if p.op == "convert_to_comparable" && p.depth >= 256 && site.contains("attempt to add with overflow") {
                return known::tolerate("C20", "F20-u8-depth", obs, msg);
            }
            Err(msg)
        }
        Outcome::Signal(s) => Err(format!("{} at depth {} died: {s}", p.op, p.depth)),
        Outcome::Timeout => Err("[harness-internal] probe timed out".into()),
    }
}

fn schedule(thorough: bool) -> Vec<u64> {
    let mut d: Vec<u64> = (0..=19).map(|k| 1u64 << k).collect();
    d.extend([255, 256, 257, 1000, 10_000, 100_000]);
    if thorough {
        d.extend([3, 100, 300, 3000, 30_000, 300_000, 50_000, 200_000, 400_000]);
    }
    d.sort();
    d.dedup();
    d
}

fn run_depth(ctx: &mut Ctx) {
    let thorough = ctx.tier == crate::engine::Tier::Thorough;
    let stacks: &[u64] = if thorough { &[2, 8, 64] } else { &[8] };
    let mut k = 0usize;
    for op in OPS {
        for depth in schedule(thorough) {
            // the pretty rendering of n nested arrays is n^2 characters of indentation
            if *op == "to_pretty_string" && depth > 4_096 {
                continue;
            }
            for st in stacks {
                k += 1;
                if k % ctx.nworkers != ctx.worker || ctx.failure.is_some() {
                    continue;
                }
                let p = Probe { op: op.to_string(), depth, stack_mb: *st };
                let mut obs = Obs::default();
                match check_probe(&p, &mut obs) {
                    Ok(()) => ctx.record(|| p.to_j(), &obs),
                    Err(m) => ctx.fail("depth", p.to_j(), m),
                }
            }
        }
    }
}

// ---- extreme arguments ------------------------------------------------------------------------------------

crate::jser_struct! {
    pub struct Extreme {
        pub len: u64,
        pub arg: i64,
        pub arg2: i64,
        pub text: bool,
    }
}

fn doc_of(len: usize) -> M {
    M::Arr((0..len).map(|i| if i % 2 == 0 { M::Num(N::U(i as u64 * 1000)) } else { M::Arr(vec![M::Str(format!("s{i}"))]) }).collect())
}

fn expect_bytes(what: &str, got: Result<(), jsonb::Error>, buf: &[u8], want: &M) -> Result<(), String> {
    got.map_err(|e| format!("{what} failed: {e:?}"))?;
    if buf != want.enc() {
        return Err(format!("{what} wrote {}, the tree result is {want:?}", hex(buf)));
    }
    Ok(())
}

pub fn check_extreme(c: &Extreme, obs: &mut Obs) -> Result<(), String> {
    let m = doc_of(c.len as usize);
    let inner = M::Obj([("k".to_string(), m.clone())].into_iter().collect());
    let (b, bi) = if c.text {
        (crate::textref::model_text(&m, &[0]), crate::textref::model_text(&inner, &[0]))
    } else {
        (m.enc(), inner.enc())
    };
    let a32 = c.arg.clamp(i32::MIN as i64, i32::MAX as i64) as i32;
    let b32 = c.arg2.clamp(i32::MIN as i64, i32::MAX as i64) as i32;
    obs.nt_if(a32 <= i32::MIN + 1 || a32 >= i32::MAX - 1);
    // get_by_index (usize)
    for idx in [c.arg.max(0) as usize, usize::MAX, usize::MAX - 1, (i32::MAX as usize) + 1] {
        let g = nopanic("get_by_index", || jsonb::get_by_index(&b, idx))?;
        if g != t::get_by_index(&m, idx).map(|x| x.enc()) {
            return Err(format!("get_by_index({idx}) on an array of {} = {:?}", c.len, g.map(|x| hex(&x))));
        }
    }
    // delete_by_index / array_insert
    let mut buf = Vec::new();
    let r = nopanic(&format!("delete_by_index({a32})"), || jsonb::delete_by_index(&b, a32, &mut buf))?;
    expect_bytes(&format!("delete_by_index({a32}) on an array of {}", c.len), r, &buf, &t::delete_by_index(&m, a32).unwrap())?;
    let mut buf = Vec::new();
    let nv = M::Str("new".into());
    let nvb = nv.enc();
    let r = nopanic(&format!("array_insert({a32})"), || jsonb::array_insert(&b, a32, &nvb, &mut buf))?;
    expect_bytes(&format!("array_insert({a32}) on an array of {}", c.len), r, &buf, &t::array_insert(&m, a32, &nv))?;
    // key paths, at top level and one level down
    for (doc, docb, path) in [
        (&m, &b, vec![KP::Index(a32)]),
        (&m, &b, vec![KP::Index(b32), KP::Index(a32)]),
        (&inner, &bi, vec![KP::Name("k".into()), KP::Index(a32)]),
    ] {
        let lp: Vec<_> = path.iter().map(|k| k.to_lib()).collect();
        let g = nopanic(&format!("get_by_keypath({path:?})"), || jsonb::get_by_keypath(docb, lp.iter()))?;
        if g != t::get_by_keypath(doc, &path).map(|x| x.enc()) {
            return Err(format!("get_by_keypath({path:?}) = {:?}, tree says {:?}", g.map(|x| hex(&x)), t::get_by_keypath(doc, &path)));
        }
        let mut buf = Vec::new();
        let r = nopanic(&format!("delete_by_keypath({path:?})"), || jsonb::delete_by_keypath(docb, lp.iter(), &mut buf))?;
        expect_bytes(&format!("delete_by_keypath({path:?})"), r, &buf, &t::delete_by_keypath(doc, &path).unwrap())?;
    }
    // JSONPath index forms
    let forms = [
        pm::AIdx::One(pm::Idx::At(a32)),
        pm::AIdx::One(pm::Idx::Last(a32)),
        pm::AIdx::Slice(pm::Idx::At(a32), pm::Idx::At(b32)),
        pm::AIdx::Slice(pm::Idx::Last(a32), pm::Idx::Last(b32)),
        pm::AIdx::Slice(pm::Idx::At(b32), pm::Idx::Last(a32)),
        pm::AIdx::Slice(pm::Idx::Last(b32), pm::Idx::At(a32)),
    ];
    for f in forms {
        let ast = pm::PathAst::Steps(pm::Start::Root, vec![pm::Step::Indices(vec![f.clone()])]);
        // Last(i32::MIN) has no parseable spelling (known finding F24 of C09): build the library AST directly
        let lib = pm::to_lib(&ast);
        let (mut d, mut o) = (Vec::new(), Vec::new());
        let r = nopanic(&format!("select $[{f:?}]"), || {
            jsonb::jsonpath::Selector::new(lib.clone(), jsonb::jsonpath::Mode::All).select(&b_enc(&m, &b, c.text), &mut d, &mut o)
        })?;
        r.map_err(|e| format!("select $[{f:?}] failed: {e:?}"))?;
        let got = super::c08::split_items(&d, &o)?;
        let want: Vec<Vec<u8>> = match pm::eval(&m, &ast) {
            Ok(pm::Expect::Items(it)) => it.iter().map(|i| i.v.enc()).collect(),
            _ => return Err("[harness-internal] index path has no items".into()),
        };
        if got != want {
            return Err(format!("$[{f:?}] on an array of {} selected {}, the path denotes {}", c.len, super::c08::show_items(&got), super::c08::show_items(&want)));
        }
    }
    Ok(())
}

/// Selector::select needs JSONB; the convenience text route is covered by C11
fn b_enc(m: &M, _b: &[u8], _text: bool) -> Vec<u8> {
    m.enc()
}

fn run_extreme(ctx: &mut Ctx) {
    let mut k = 0usize;
    for len in 0u64..=5 {
        let l = len as i64;
        let mut args = vec![i32::MIN as i64, i32::MIN as i64 + 1, -l - 1, -l, -1, 0, l - 1, l, l + 1, i32::MAX as i64 - 1, i32::MAX as i64];
        args.sort();
        args.dedup();
        for a in &args {
            for a2 in &args {
                for text in [false, true] {
                    k += 1;
                    if k % ctx.nworkers != ctx.worker || ctx.failure.is_some() {
                        continue;
                    }
                    let c = Extreme { len, arg: *a, arg2: *a2, text };
                    let mut obs = Obs::default();
                    match guard(|| check_extreme(&c, &mut obs)) {
                        Ok(Ok(())) => ctx.record(|| c.to_j(), &obs),
                        Ok(Err(m)) => ctx.fail("extreme", c.to_j(), m),
                        Err(p) => ctx.fail("extreme", c.to_j(), format!("unexpected {}", p.describe())),
                    }
                }
            }
        }
    }
}


// ---- numerals at the ends of the integer ranges, written in path and key-path texts ----------------

const NUMERALS: &[&str] = &[
    "0", "-0", "1", "-1", "2147483647", "2147483648", "-2147483647", "-2147483648", "-2147483649", "4294967295", "4294967296",
    "9223372036854775807", "9223372036854775808", "-9223372036854775807", "-9223372036854775808", "-9223372036854775809",
    "18446744073709551615", "18446744073709551616", "-18446744073709551615", "99999999999999999999999999", "-99999999999999999999999999",
    "+1", "+2147483648", "1e400", "-1e400", "1e-400", "0.5e1", "00", "2147483647.0", "-2147483648.0",
];
const PATH_FORMS: &[&str] = &[
    "$[A]", "$[last - A]", "$[last + A]", "$[last-A]", "$[last+A]", "$[A to B]", "$[last - A to last + B]", "$[A, B]", "$[0 to last - A]",
    "$[*]?(@[A] == 1)", "$?(@ == A)", "$[*]?(@ > A && @ < B)", "$?(exists(@[last - A]))", "$[0][A]", "$.a[A to last - B]", "$ == A", "$[A] < B",
    "$[last - A] == $[B]",
];
const KEYPATH_FORMS: &[&str] = &["{A}", "{a,A}", "{A,B}", "{ A , B }", "{0,A,\"B\"}"];

pub fn check_numeral_text(c: &(String, u64), obs: &mut Obs) -> Result<(), String> {
    let (text, len) = (&c.0, c.1);
    obs.nt();
    if text.starts_with('{') {
        let r = nopanic(&format!("parse_key_paths({text:?})"), || jsonb::keypath::parse_key_paths(text.as_bytes()).map(|k| k.paths.len()))?;
        obs.label_if(r.is_ok(), "keypath-accepted");
        if r.is_ok() {
            let doc = M::Arr((0..len).map(|i| M::Arr(vec![M::Num(N::U(i))])).collect()).enc();
            nopanic(&format!("get_by_keypath({text:?})"), || {
                let k = jsonb::keypath::parse_key_paths(text.as_bytes()).unwrap();
                let _ = jsonb::get_by_keypath(&doc, k.paths.iter());
                let mut buf = Vec::new();
                let _ = jsonb::delete_by_keypath(&doc, k.paths.iter(), &mut buf);
            })?;
        }
        return Ok(());
    }
    let ok = nopanic(&format!("parse_json_path({text:?})"), || jsonb::jsonpath::parse_json_path(text.as_bytes()).is_ok())?;
    obs.label_if(ok, "path-accepted");
    if ok {
        let doc = M::Arr((0..len).map(|i| if i % 2 == 0 { M::Num(N::U(i)) } else { M::Arr(vec![M::Num(N::I(-1)), M::Num(N::U(1))]) }).collect()).enc();
        for mode in [jsonb::jsonpath::Mode::All, jsonb::jsonpath::Mode::First, jsonb::jsonpath::Mode::Array, jsonb::jsonpath::Mode::Mixed] {
            nopanic(&format!("select({text:?}, {mode:?}) on an array of {len}"), || {
                let p = jsonb::jsonpath::parse_json_path(text.as_bytes()).unwrap();
                let (mut d, mut o) = (Vec::new(), Vec::new());
                let _ = jsonb::jsonpath::Selector::new(p, mode.clone()).select(&doc, &mut d, &mut o);
            })?;
        }
        nopanic(&format!("path_exists / path_match({text:?})"), || {
            let _ = jsonb::path_exists(&doc, jsonb::jsonpath::parse_json_path(text.as_bytes()).unwrap());
            let _ = jsonb::path_match(&doc, jsonb::jsonpath::parse_json_path(text.as_bytes()).unwrap());
        })?;
    }
    Ok(())
}

fn run_numerals(ctx: &mut Ctx) {
    let mut k = 0usize;
    for form in PATH_FORMS.iter().chain(KEYPATH_FORMS) {
        let two = form.contains('B');
        for a in NUMERALS {
            for b in if two { NUMERALS } else { &NUMERALS[..1] } {
                let text = form.replace('A', a).replace('B', b);
                for len in [0u64, 3] {
                    k += 1;
                    if k % ctx.nworkers != ctx.worker || ctx.failure.is_some() {
                        continue;
                    }
                    let c = (text.clone(), len);
                    let mut obs = Obs::default();
                    match guard(|| check_numeral_text(&c, &mut obs)) {
                        Ok(Ok(())) => ctx.record(|| c.to_j(), &obs),
                        Ok(Err(m)) => ctx.fail("numerals", c.to_j(), m),
                        Err(p) => ctx.fail("numerals", c.to_j(), format!("unexpected {}", p.describe())),
                    }
                }
            }
        }
    }
}
