use crate::engine::Ctx;
use serde_json::Value as J;

pub mod c01;
pub mod c02;
pub mod c03;
pub mod c04;
pub mod c05;
pub mod c06;
pub mod c07;
pub mod c08;
pub mod c09;
pub mod c10;
pub mod c11;
pub mod c12;
pub mod c13;
pub mod c14;
pub mod c15;
pub mod c16;
pub mod c17;
pub mod c18;
pub mod c19;
pub mod c20;

pub struct Sub {
    pub name: &'static str,
    pub run: fn(&mut Ctx),
    pub replay: fn(&J) -> Result<(), String>,
}

pub struct Prop {
    pub id: &'static str,
    pub title: &'static str,
    pub rule: &'static str,
    pub assumptions: &'static [&'static str],
    pub subs: Vec<Sub>,
}

pub fn all() -> Vec<Prop> {
    vec![c01::prop(), c02::prop(), c03::prop(), c04::prop(), c05::prop(), c06::prop(), c07::prop(), c08::prop(), c09::prop(), c10::prop(), c11::prop(), c12::prop(), c13::prop(), c14::prop(), c15::prop(), c16::prop(), c17::prop(), c18::prop(), c19::prop(), c20::prop()]
}

pub fn get(id: &str) -> Option<Prop> {
    all().into_iter().find(|p| p.id == id)
}

/// standard replay wrapper: deserialise a case and run the check once
pub fn replay_with<T: crate::jser::Jser>(
    j: &J,
    check: impl Fn(&T, &mut crate::engine::Obs) -> Result<(), String>,
) -> Result<(), String> {
    let case = T::from_j(j).map_err(|e| format!("[harness-internal] cannot read case: {e}"))?;
    let mut obs = crate::engine::Obs::default();
    match crate::engine::guard(|| check(&case, &mut obs)) {
        Ok(r) => r,
        Err(p) => Err(format!("unexpected {}", p.describe())),
    }
}

/// child-process entry for C20 probes
pub fn probe_main(args: &[String]) -> i32 {
    c20::probe_main(args)
}
