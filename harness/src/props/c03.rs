//! C03 — rendering JSONB as text yields valid JSON that denotes the same document.

use super::{replay_with, Prop, Sub};
use crate::cmpmodel::doc_eq;
use crate::engine::{guard, nopanic, run_strategy, Ctx, Obs};
use crate::gen::*;
use crate::jser::Jser;
use crate::model::*;
use crate::textref::{ref_parse, Mode};
use std::collections::BTreeMap;

pub fn prop() -> Prop {
    Prop {
        id: "C03",
        title: "Rendering JSONB as text yields valid JSON that denotes the same document",
        rule: "trees with finite numbers only (by construction), strings and keys biased to every control \
               character, quote, backslash, DEL, U+2028/9, astral characters, at depth up to 5 (9 thorough); \
               sweep: each code point U+0000-U+009F, the last code points of each UTF-8 length, U+2028/9 and \
               the surrogate-adjacent ones placed into a value and into a key; offsets: a 2-, 3- or 4-byte character, \
               U+2028, or one next to a character that must be escaped, at every byte offset 0..=300 of a plain \
               string used as value, key and later sibling (enumerated). Both renderings are judged by \
               two independent strict parsers (reference, serde_json), compared with the original document, \
               re-parsed by the library and re-encoded; the pretty form is compared with the compact one after \
               deleting whitespace outside string literals and its indentation is checked line by line. \
               Non-trivial = document of depth >= 1 containing a float or a string/key with a character that \
               needs escaping.",
        assumptions: &["textref.rs strict mode and serde_json are the two independent RFC 8259 acceptors"],
        subs: vec![
            Sub { name: "trees", run: run_trees, replay: |j| replay_with::<M>(j, check) },
            Sub { name: "sweep", run: run_sweep, replay: |j| replay_with::<M>(j, check) },
            Sub { name: "offsets", run: run_offsets, replay: |j| replay_with::<M>(j, check) },
            Sub { name: "numbers", run: run_numbers, replay: |j| replay_with::<M>(j, check) },
        ],
    }
}

fn needs_escape(s: &str) -> bool {
    s.chars().any(|c| (c as u32) < 0x20 || c == '"' || c == '\\')
}

/// remove whitespace outside string literals
fn squeeze(p: &str) -> String {
    let mut out = String::with_capacity(p.len());
    let mut in_str = false;
    let mut esc = false;
    for c in p.chars() {
        if in_str {
            out.push(c);
            if esc {
                esc = false;
            } else if c == '\\' {
                esc = true;
            } else if c == '"' {
                in_str = false;
            }
        } else if c == '"' {
            in_str = true;
            out.push(c);
        } else if c != ' ' && c != '\n' {
            out.push(c);
        }
    }
    out
}

/// two-space indentation, one member or element per line
fn check_pretty_lines(p: &str) -> Result<(), String> {
    let mut depth: i64 = 0;
    let mut in_str = false;
    let mut esc = false;
    // split on newlines that are outside strings
    let mut lines: Vec<String> = vec![String::new()];
    for c in p.chars() {
        if in_str {
            if esc {
                esc = false;
            } else if c == '\\' {
                esc = true;
            } else if c == '"' {
                in_str = false;
            }
            lines.last_mut().unwrap().push(c);
        } else if c == '\n' {
            lines.push(String::new());
        } else {
            if c == '"' {
                in_str = true;
            }
            lines.last_mut().unwrap().push(c);
        }
    }
    for (ln, line) in lines.iter().enumerate() {
        if line.trim_matches(' ').is_empty() {
            continue;
        }
        let indent = line.len() - line.trim_start_matches(' ').len();
        let body = &line[indent..];
        // structural characters outside strings
        let mut structural: Vec<(usize, char)> = vec![];
        let (mut s, mut e) = (false, false);
        for (i, c) in body.chars().enumerate() {
            if s {
                if e {
                    e = false;
                } else if c == '\\' {
                    e = true;
                } else if c == '"' {
                    s = false;
                }
            } else if c == '"' {
                s = true;
            } else if matches!(c, '[' | ']' | '{' | '}' | ',') {
                structural.push((i, c));
            }
        }
        // an empty container may be written as `[]` / `{}` (no member to put on a line)
        let structural: Vec<(usize, char)> = {
            let mut v = vec![];
            let mut k = 0;
            while k < structural.len() {
                let (i, c) = structural[k];
                if k + 1 < structural.len() {
                    let (j, d) = structural[k + 1];
                    if j == i + 1 && ((c == '[' && d == ']') || (c == '{' && d == '}')) {
                        k += 2;
                        continue;
                    }
                }
                v.push((i, c));
                k += 1;
            }
            v
        };
        let n = body.chars().count();
        let closes = body.starts_with(']') || body.starts_with('}');
        let want = 2 * if closes { depth - 1 } else { depth };
        if indent as i64 != want {
            return Err(format!("pretty line {ln} {line:?} is indented by {indent}, nesting depth asks for {want}"));
        }
        for (i, c) in &structural {
            match c {
                ',' if *i != n - 1 => return Err(format!("pretty line {ln} {line:?} holds more than one member")),
                '[' | '{' if *i != n - 1 => return Err(format!("pretty line {ln} {line:?}: opening bracket is not last")),
                ']' | '}' if *i != 0 => return Err(format!("pretty line {ln} {line:?}: closing bracket is not first")),
                _ => {}
            }
        }
        for (_, c) in &structural {
            match c {
                '[' | '{' => depth += 1,
                ']' | '}' => depth -= 1,
                _ => {}
            }
        }
    }
    Ok(())
}

fn serde_to_model(v: &serde_json::Value) -> M {
    match v {
        serde_json::Value::Null => M::Null,
        serde_json::Value::Bool(b) => M::Bool(*b),
        serde_json::Value::Number(n) => {
            if let Some(u) = n.as_u64() {
                M::Num(N::U(u))
            } else if let Some(i) = n.as_i64() {
                M::Num(N::I(i))
            } else {
                M::Num(N::F(n.as_f64().unwrap()))
            }
        }
        serde_json::Value::String(s) => M::Str(s.clone()),
        serde_json::Value::Array(a) => M::Arr(a.iter().map(serde_to_model).collect()),
        serde_json::Value::Object(o) => M::Obj(o.iter().map(|(k, v)| (k.clone(), serde_to_model(v))).collect()),
    }
}

/// same shape and strings; numbers equal by value except that serde_json's default float
/// parser may be one ulp off, which is not the renderer's fault
fn same_modulo_serde_floats(a: &M, b: &M) -> bool {
    match (a, b) {
        // serde_json without its float_roundtrip feature is allowed to be a few ulps off;
        // it serves as a second syntax acceptor, the exact value is judged by the reference parser
        (M::Num(N::F(x)), M::Num(N::F(y))) => x == y || ((x - y) / y).abs() < 1e-14,
        (M::Num(_), M::Num(_)) => doc_eq(a, b),
        (M::Arr(x), M::Arr(y)) => x.len() == y.len() && x.iter().zip(y).all(|(p, q)| same_modulo_serde_floats(p, q)),
        (M::Obj(x), M::Obj(y)) => {
            x.len() == y.len() && x.iter().zip(y).all(|((k1, v1), (k2, v2))| k1 == k2 && same_modulo_serde_floats(v1, v2))
        }
        _ => doc_eq(a, b),
    }
}

pub fn check(m: &M, obs: &mut Obs) -> Result<(), String> {
    if !m.all_finite() {
        return Err("[harness-internal] C03 case with a non-finite number".into());
    }
    let esc = m.any(|x| matches!(x, M::Str(s) if needs_escape(s))) || m.any_key(needs_escape);
    let flt = m.any(|x| matches!(x, M::Num(N::F(_))));
    obs.label_if(esc, "needs-escaping");
    obs.label_if(m.any_key(needs_escape), "key-needs-escaping");
    obs.label_if(flt, "has-float");
    obs.nt_if(m.depth() >= 1 && (esc || flt));
    let b = m.enc();
    let s = nopanic("to_string", || jsonb::to_string(&b))?;
    let p = nopanic("to_pretty_string", || jsonb::to_pretty_string(&b))?;
    for (name, text) in [("to_string", &s), ("to_pretty_string", &p)] {
        // (a) two independent strict acceptors
        let r = ref_parse(text.as_bytes(), Mode::Strict)
            .map_err(|e| format!("{name} is not RFC 8259 JSON ({e}): {text:?}\n  for document {m:?}"))?;
        // (serde_json's default nesting limit of 128 is its own safeguard, not a rule of JSON: lifted)
        let sj: serde_json::Value = {
            let mut de = serde_json::Deserializer::from_str(text);
            de.disable_recursion_limit();
            let v = serde::Deserialize::deserialize(&mut de).map_err(|e| format!("{name}: serde_json rejects the rendering ({e}): {text:?}"))?;
            de.end().map_err(|e| format!("{name}: serde_json rejects the rendering ({e}): {text:?}"))?;
            v
        };
        // (b) meaning
        if !doc_eq(&r, m) {
            return Err(format!("{name} denotes {r:?}\n  but the document is {m:?}\n  text {text:?}"));
        }
        if !same_modulo_serde_floats(&serde_to_model(&sj), m) {
            return Err(format!("{name}: serde_json reads {sj:?} from {text:?}, document is {m:?}"));
        }
        // (c) closing the loop through the library's own parser
        let back = nopanic("parse_value", || jsonb::parse_value(text.as_bytes()).map(|v| (from_value(&v), v.to_vec())))?
            .map_err(|e| format!("parse_value rejects {name}'s output {text:?}: {e:?}"))?;
        let decoded = nopanic("from_slice", || jsonb::from_slice(&b).map(|v| v == jsonb::parse_value(text.as_bytes()).unwrap()))?
            .map_err(|e| format!("from_slice failed on a valid encoding: {e:?}"))?;
        if !decoded || !doc_eq(&back.0, m) {
            return Err(format!("parse_value({name}(doc)) = {:?} is not equal to the document {m:?}", back.0));
        }
        if m.unsigned_norm().ident_eq(&m.norm()) && back.1 != b {
            return Err(format!(
                "parse_value({name}(doc)).to_vec() = {} differs from the original bytes {} (text {text:?})",
                hex(&back.1),
                hex(&b)
            ));
        }
    }
    // (d) pretty = compact modulo insignificant whitespace
    let sq = squeeze(&p);
    if sq != s {
        return Err(format!("pretty rendering without whitespace is {sq:?}, compact rendering is {s:?}"));
    }
    check_pretty_lines(&p).map_err(|e| format!("{e}\n  pretty: {p:?}"))
}

fn run_trees(ctx: &mut Ctx) {
    let cases = ctx.share(ctx.tier.pick(400_000, 4_000_000));
    let p = ctx.tier.pick(TreeParams::quick(), TreeParams::thorough()).finite().with_big(2);
    run_strategy(ctx, "C03", "trees", cases, arb_doc(p), check);
}

fn run_sweep(ctx: &mut Ctx) {
    // every BMP scalar value (exhaustive), and the astral planes on a stride plus their ends
    let stride = ctx.tier.pick(61u32, 7u32);
    let mut cps: Vec<u32> = (0u32..=0xFFFF).filter(|c| !(0xD800..=0xDFFF).contains(c)).collect();
    cps.extend((0x10000u32..=0x10FFFF).step_by(stride as usize));
    cps.extend((1u32..=16).flat_map(|p| [p * 0x10000, p * 0x10000 + 0xFFFF]));
    ctx.extra.insert("sweep_exhaustive_bmp".into(), serde_json::json!(true));
    for (i, cp) in cps.iter().enumerate() {
        if i % ctx.nworkers != ctx.worker || ctx.failure.is_some() {
            continue;
        }
        let c = match char::from_u32(*cp) {
            Some(c) => c,
            None => continue,
        };
        let s = format!("a{c}b");
        let mut o = BTreeMap::new();
        o.insert(s.clone(), M::Str(s.clone()));
        o.insert(format!("{c}"), M::Arr(vec![M::Str(format!("{c}{c}")), M::Num(N::F(1.5))]));
        for d in [M::Str(s.clone()), M::Arr(vec![M::Null, M::Str(s.clone())]), M::Obj(o.clone())] {
            let mut obs = Obs::default();
            match guard(|| check(&d, &mut obs)) {
                Ok(Ok(())) => ctx.record(|| d.to_j(), &obs),
                Ok(Err(m)) => ctx.fail("sweep", d.to_j(), m),
                Err(p) => ctx.fail("sweep", d.to_j(), format!("unexpected {}", p.describe())),
            }
        }
    }
}


/// a multi-byte character (2, 3, 4 bytes; U+2028; a character that must be escaped next to one that
/// must not) at every byte offset 0..=300 of an otherwise plain string, as a value, as a key and as
/// a later sibling: a renderer that copies plain runs in blocks of any size up to 256 bytes cuts
/// some of these in the middle of the character
fn run_offsets(ctx: &mut Ctx) {
    let chars = ["\u{e9}", "\u{20ac}", "\u{1F600}", "\u{2028}", "\u{e9}\"", "\u{1F600}\u{1f}"];
    let mut k = 0usize;
    for off in 0usize..=300 {
        for c in chars {
            k += 1;
            if k % ctx.nworkers != ctx.worker || ctx.failure.is_some() {
                continue;
            }
            for tail in [0usize, 70, 200] {
                let s = format!("{}{c}{}", "a".repeat(off), "b".repeat(tail));
                let mut o = BTreeMap::new();
                o.insert(s.clone(), M::Num(N::U(1)));
                o.insert(format!("z{s}"), M::Str(s.clone()));
                for d in [M::Str(s.clone()), M::Arr(vec![M::Str("x".repeat(off % 7)), M::Str(s.clone()), M::Bool(true)]), M::Obj(o.clone())] {
                    let mut obs = Obs::default();
                    match guard(|| check(&d, &mut obs)) {
                        Ok(Ok(())) => {
                            obs.nontrivial = true;
                            ctx.record(|| d.to_j(), &obs)
                        }
                        Ok(Err(m)) => ctx.fail("offsets", d.to_j(), m),
                        Err(p) => ctx.fail("offsets", d.to_j(), format!("unexpected {}", p.describe())),
                    }
                }
            }
        }
    }
}

/// number renderings on their own: f32-exact doubles on a stride through all 2^32 patterns,
/// integer and float edges, powers of ten and two, in three positions
fn run_numbers(ctx: &mut Ctx) {
    let stride: u64 = ctx.tier.pick(16381, 257);
    let mut nums: Vec<N> = vec![];
    let total: u64 = 1 << 32;
    let per = total / ctx.nworkers as u64;
    let lo = per * ctx.worker as u64;
    let hi = if ctx.worker + 1 == ctx.nworkers { total } else { lo + per };
    let mut x = lo + (stride - lo % stride) % stride;
    while x < hi {
        let f = f32::from_bits(x as u32) as f64;
        if f.is_finite() {
            nums.push(N::F(f));
        }
        nums.push(N::I(x as u32 as i32 as i64 * 1_000_003));
        x += stride;
    }
    if ctx.worker == 0 {
        nums.extend(i64_edges().into_iter().map(N::I));
        nums.extend(u64_edges().into_iter().map(N::U));
        nums.extend(f64_edges().into_iter().filter(|f| f.is_finite()).map(N::F));
        for e in -330..=308 {
            nums.push(N::F(format!("1e{e}").parse().unwrap()));
            nums.push(N::F(format!("-9.999999999999999e{e}").parse::<f64>().unwrap()));
        }
        for e in 0..64 {
            nums.push(N::U(1u64 << e));
            nums.push(N::F((1u64 << e) as f64 + 0.5));
        }
    }
    nums.retain(|n| n.is_finite());
    for (k, n) in nums.iter().enumerate() {
        if ctx.failure.is_some() {
            break;
        }
        let d = match k % 3 {
            0 => M::Num(*n),
            1 => M::Arr(vec![M::Str("x".into()), M::Num(*n)]),
            _ => M::Obj([("k".to_string(), M::Num(*n))].into_iter().collect()),
        };
        let mut obs = Obs::default();
        match guard(|| check(&d, &mut obs)) {
            Ok(Ok(())) => ctx.record(|| d.to_j(), &obs),
            Ok(Err(m)) => ctx.fail("numbers", d.to_j(), m),
            Err(p) => ctx.fail("numbers", d.to_j(), format!("unexpected {}", p.describe())),
        }
    }
}
