//! C01 — binary encoding round-trips every value and is exactly the documented layout.

use super::{replay_with, Prop, Sub};
use crate::engine::{nopanic, run_strategy, Ctx, Obs};
use crate::gen::*;
use crate::jser::Jser;
use crate::model::*;
use std::collections::BTreeMap;

pub fn prop() -> Prop {
    Prop {
        id: "C01",
        title: "Binary encoding round-trips every value and is exactly the documented layout",
        rule: "trees: proptest-generated model trees (any nesting to depth 5 quick / 9 thorough, empty \
               containers, Unicode strings and keys, all number classes incl. NaN/inf) encoded by the \
               library and compared byte-for-byte with an independent reference encoder, decoded back \
               and re-encoded; boundaries: every width boundary +-2 of every number representation \
               enumerated in 4 positions. Non-trivial = depth >= 2, or a container holding a \
               (possibly empty) container, or a multi-byte key, or a number within 2 of a width \
               boundary inside a container. Distinct = distinct canonical serialisation of the tree.",
        assumptions: &[
            "the reference encoder (model.rs, written from README.md and tests/it/encode.rs) is the documented layout",
        ],
        subs: vec![
            Sub { name: "trees", run: run_trees, replay: |j| replay_with::<M>(j, check_tree) },
            Sub { name: "boundaries", run: run_boundaries, replay: |j| replay_with::<M>(j, check_tree) },
        ],
    }
}

fn near_width_boundary(n: &N) -> bool {
    let near = |v: i128| {
        [
            0i128,
            i8::MIN as i128,
            i8::MAX as i128,
            u8::MAX as i128,
            i16::MIN as i128,
            i16::MAX as i128,
            u16::MAX as i128,
            i32::MIN as i128,
            i32::MAX as i128,
            u32::MAX as i128,
            i64::MIN as i128,
            i64::MAX as i128,
            u64::MAX as i128,
        ]
        .iter()
        .any(|b| (v - b).abs() <= 2)
    };
    match n {
        N::I(v) => near(*v as i128),
        N::U(v) => near(*v as i128),
        N::F(_) => false,
    }
}

fn nontrivial(m: &M) -> bool {
    let nested = match m {
        M::Arr(a) => a.iter().any(|x| x.is_container()),
        M::Obj(o) => o.values().any(|x| x.is_container()),
        _ => false,
    };
    m.depth() >= 2
        || nested
        || m.any_key(|k| !k.is_ascii())
        || (m.is_container() && m.any(|x| matches!(x, M::Num(n) if near_width_boundary(n))))
}

fn check_numbers(m: &M) -> Result<(), String> {
    match m {
        M::Num(n) => {
            let lib = n.to_lib();
            let mut out = Vec::new();
            let len = nopanic("compact_encode", || lib.compact_encode(&mut out))?
                .map_err(|e| format!("compact_encode({n:?}) failed: {e:?}"))?;
            let want = n.enc_vec();
            if out != want || len != want.len() {
                return Err(format!(
                    "compact_encode({n:?}) = {} (returned length {len}), documented shortest form is {}",
                    hex(&out),
                    hex(&want)
                ));
            }
            let back = nopanic("Number::decode", || jsonb::Number::decode(&out))?
                .map_err(|e| format!("Number::decode({}) failed: {e:?}", hex(&out)))?;
            if !N::from_lib(&back).ident_eq(n) {
                return Err(format!("Number::decode(encode({n:?})) = {back:?}"));
            }
            Ok(())
        }
        M::Arr(a) => a.iter().try_for_each(check_numbers),
        M::Obj(o) => o.values().try_for_each(check_numbers),
        _ => Ok(()),
    }
}

pub fn check_tree(m: &M, obs: &mut Obs) -> Result<(), String> {
    obs.nt_if(nontrivial(m));
    obs.label_if(m.depth() >= 3, "depth>=3");
    obs.label_if(m.any_key(|k| !k.is_ascii()), "multibyte-key");
    obs.label_if(!m.all_finite(), "nan-or-inf");
    obs.label_if(m.any(|x| matches!(x, M::Arr(a) if a.is_empty()) || matches!(x, M::Obj(o) if o.is_empty())), "empty-container");

    let want = m.enc();
    let v = to_value(m);
    // (a) layout
    let got = nopanic("Value::to_vec", || v.to_vec())?;
    if got != want {
        return Err(format!("to_vec differs from the documented layout:\n  got  {}\n  want {}", hex(&got), hex(&want)));
    }
    let mut buf = Vec::new();
    nopanic("Value::write_to_vec", || v.write_to_vec(&mut buf))?;
    if buf != want {
        return Err(format!("write_to_vec differs from to_vec: {}", hex(&buf)));
    }
    // (b) strict validator accepts, and sees the same document
    let vm = validate(&got).map_err(|e| format!("encoding is not canonical JSONB: {e}; bytes {}", hex(&got)))?;
    let nm = m.norm();
    if !vm.ident_eq(&nm) {
        return Err(format!("strict validator reads a different document: {vm:?}"));
    }
    // (c) round trip through both decoders
    for (name, res) in [
        ("from_slice", nopanic("from_slice", || jsonb::from_slice(&got).map(|v| from_value(&v)))?),
        ("parse_jsonb", nopanic("parse_jsonb", || jsonb::parse_jsonb(&got).map(|v| from_value(&v)))?),
    ] {
        let back = res.map_err(|e| format!("{name} rejects the library's own encoding: {e:?}; bytes {}", hex(&got)))?;
        if !back.ident_eq(&nm) {
            return Err(format!("{name}(to_vec(v)) is not equal to v: got {back:?}"));
        }
        // (d) re-encoding reproduces the bytes
        let again = nopanic("re-encode", || to_value(&back).to_vec())?;
        if again != got {
            return Err(format!("re-encoding the value decoded by {name} gives different bytes: {}", hex(&again)));
        }
    }
    // (d') re-encode the library's own decoded value without going through the model
    let direct = nopanic("from_slice+to_vec", || jsonb::from_slice(&got).map(|v| v.to_vec()))?
        .map_err(|e| format!("{e:?}"))?;
    if direct != got {
        return Err(format!("from_slice(bytes).to_vec() != bytes: {}", hex(&direct)));
    }
    // (e) number codec on every leaf
    check_numbers(m)
}

fn run_trees(ctx: &mut Ctx) {
    let cases = ctx.share(ctx.tier.pick(300_000, 4_000_000));
    let p = ctx.tier.pick(TreeParams::quick(), TreeParams::thorough()).with_big(3);
    run_strategy(ctx, "C01", "trees", cases, arb_doc(p), check_tree);
}

/// every width boundary +-2 of every representation, in four positions
pub fn boundary_docs() -> Vec<M> {
    let mut nums: Vec<N> = vec![];
    nums.extend(i64_edges().into_iter().map(N::I));
    nums.extend(u64_edges().into_iter().map(N::U));
    nums.extend(f64_edges().into_iter().map(N::F));
    let mut out = vec![];
    for n in nums {
        let x = M::Num(n);
        out.push(x.clone());
        out.push(M::Arr(vec![M::Str(String::new()), M::Null, x.clone(), M::Bool(true)]));
        let mut o = BTreeMap::new();
        o.insert("é".to_string(), M::Str("测".into()));
        o.insert("éz".to_string(), x.clone());
        out.push(M::Obj(o.clone()));
        out.push(M::Arr(vec![M::Arr(vec![]), M::Obj(o), M::Arr(vec![M::Arr(vec![x.clone(), x])])]));
    }
    out
}

fn run_boundaries(ctx: &mut Ctx) {
    let docs = boundary_docs();
    for (i, d) in docs.iter().enumerate() {
        if i % ctx.nworkers != ctx.worker || ctx.failure.is_some() {
            continue;
        }
        let mut obs = Obs::default();
        match crate::engine::guard(|| check_tree(d, &mut obs)) {
            Ok(Ok(())) => ctx.record(|| d.to_j(), &obs),
            Ok(Err(m)) => ctx.fail("boundaries", d.to_j(), m),
            Err(p) => ctx.fail("boundaries", d.to_j(), format!("unexpected {}", p.describe())),
        }
    }
}
