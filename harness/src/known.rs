//! Known-findings file (/verif/known_findings.json): committed, never written at run
//! time. `known` entries are tolerated *by exact signature* inside the property
//! closures (so the search continues behind them) and announced with a
//! KNOWN-FINDING line when their witness still reproduces; `fixed` entries are
//! documentation and suppress nothing.

use serde_json::Value as J;
use std::sync::atomic::{AtomicBool, Ordering};
use std::sync::OnceLock;

#[derive(Clone, Debug)]
pub struct Finding {
    pub id: String,
    pub property: String,
    pub status: String, // "known" | "fixed"
    pub sub: String,
    pub witness: J,
    pub what: String,
}

static STRICT: AtomicBool = AtomicBool::new(false);
static FINDINGS: OnceLock<Vec<Finding>> = OnceLock::new();

/// strict mode: a case matching a known signature is reported as `Err("KNOWN:<id>: ..")`
/// instead of being tolerated (used to replay witnesses and by `vcheck replay`)
pub fn set_strict(s: bool) {
    STRICT.store(s, Ordering::SeqCst);
}
pub fn strict() -> bool {
    STRICT.load(Ordering::SeqCst)
}

pub fn path() -> String {
    std::env::var("VERIF_KNOWN_FINDINGS").unwrap_or_else(|_| "/verif/known_findings.json".to_string())
}

pub fn load() -> &'static Vec<Finding> {
    FINDINGS.get_or_init(|| {
        let txt = match std::fs::read_to_string(path()) {
            Ok(t) => t,
            Err(_) => return vec![],
        };
        let j: J = match crate::jser::parse_json(txt.as_bytes()) {
            Ok(j) => j,
            Err(e) => {
                eprintln!("known_findings.json does not parse: {e}");
                return vec![];
            }
        };
        let mut out = vec![];
        for e in j.get("findings").and_then(|x| x.as_array()).cloned().unwrap_or_default() {
            let s = |k: &str| e.get(k).and_then(|x| x.as_str()).unwrap_or("").to_string();
            out.push(Finding {
                id: s("id"),
                property: s("property"),
                status: s("status"),
                sub: s("sub"),
                witness: e.get("witness").cloned().unwrap_or(J::Null),
                what: s("what"),
            });
        }
        out
    })
}

/// is `id` listed as a known (unrepaired) finding for `property`?
pub fn is_known(property: &str, id: &str) -> bool {
    load().iter().any(|f| f.status == "known" && f.property == property && f.id == id)
}

/// Decision helper used inside checks: the case failed and matches the signature
/// of finding `id`. Tolerated (Ok) when listed and not strict; otherwise an error
/// whose text starts with KNOWN:<id> (listed, strict) or is the plain message.
pub fn tolerate(property: &str, id: &'static str, obs: &mut crate::engine::Obs, msg: String) -> Result<(), String> {
    if is_known(property, id) {
        if strict() {
            Err(format!("KNOWN:{id}: {msg}"))
        } else {
            obs.excluded(id);
            Ok(())
        }
    } else {
        Err(format!("{msg} [signature {id}, not listed as known]"))
    }
}
