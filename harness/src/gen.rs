//! proptest strategies for model trees, strings, numbers, and derived documents.

use crate::engine::pick;
use crate::model::{M, N};
use proptest::collection::vec;
use proptest::prelude::*;
use proptest::strategy::BoxedStrategy;
use std::collections::BTreeMap;

// ---- strings ------------------------------------------------------------------

const SPECIAL_CHARS: &[char] = &[
    '\u{0}', '\u{1}', '\u{2}', '\u{3}', '\u{4}', '\u{5}', '\u{6}', '\u{7}', '\u{8}', '\t', '\n', '\u{b}',
    '\u{c}', '\r', '\u{e}', '\u{1b}', '\u{1f}', ' ', '"', '\\', '/', '\u{7f}', '\u{80}', '\u{9f}', '\u{a0}',
    '\u{7ff}', '\u{800}', '\u{2028}', '\u{2029}', '\u{d7ff}', '\u{e000}', '\u{fffd}', '\u{ffff}',
    '\u{10000}', '\u{1f48e}', '\u{10ffff}', 'é', 'ß', '测', '试', 'K', 'k', 'İ', 'ı', 'ſ',
];

pub fn arb_char() -> BoxedStrategy<char> {
    prop_oneof![
        6 => (0u8..26).prop_map(|i| (b'a' + i) as char),
        2 => (0u8..26).prop_map(|i| (b'A' + i) as char),
        2 => (0u8..10).prop_map(|i| (b'0' + i) as char),
        3 => (0..SPECIAL_CHARS.len()).prop_map(|i| SPECIAL_CHARS[i]),
        1 => (0u8..0x20).prop_map(|i| i as char),
        1 => any::<char>(),
    ]
    .boxed()
}

/// small pool of words so that equal strings, prefixes and case variants collide
const WORDS: &[&str] = &[
    "", "a", "A", "b", "ab", "aB", "AB", "abc", "k", "K", "key", "Key", "KEY", "k1", "k2", "name", "Name",
    "true", "TRUE", "false", "null", "0", "1", "-1", "12", "1.5", "a\u{0}", "a\u{1}", "a\u{1}\u{1}", "é", "c", "bc",
    "É", "测试", "💎", "a b", "x.y", "\"q\"", "\\", "\n",
    // literal backslash sequences that look like escapes (what the parser keeps for unpaired surrogates)
    "\\ud83d\\ude00", "\\uDC00", "\\u0041", "\\n", "\\\"", "\\u{d800}",
];

pub fn arb_string() -> BoxedStrategy<String> {
    prop_oneof![
        4 => (0..WORDS.len()).prop_map(|i| WORDS[i].to_string()),
        5 => vec(arb_char(), 0..6).prop_map(|v| v.into_iter().collect()),
        1 => vec(arb_char(), 6..24).prop_map(|v| v.into_iter().collect()),
        1 => ((0..WORDS.len()), vec(arb_char(), 0..3))
            .prop_map(|(i, v)| format!("{}{}", WORDS[i], v.into_iter().collect::<String>())),
    ]
    .boxed()
}

pub fn arb_long_string(max: usize) -> BoxedStrategy<String> {
    vec(arb_char(), 0..max).prop_map(|v| v.into_iter().collect()).boxed()
}

pub fn arb_key() -> BoxedStrategy<String> {
    arb_string()
}

// ---- numbers --------------------------------------------------------------------

pub fn i64_edges() -> Vec<i64> {
    let mut v = vec![];
    for b in [
        0i128,
        i8::MIN as i128,
        i8::MAX as i128,
        u8::MAX as i128,
        i16::MIN as i128,
        i16::MAX as i128,
        u16::MAX as i128,
        i32::MIN as i128,
        i32::MAX as i128,
        u32::MAX as i128,
        i64::MIN as i128,
        i64::MAX as i128,
        1i128 << 53,
        -(1i128 << 53),
        1i128 << 24,
        1i128 << 62,
    ] {
        for d in -2i128..=2 {
            let x = b + d;
            if x >= i64::MIN as i128 && x <= i64::MAX as i128 {
                v.push(x as i64);
            }
        }
    }
    v.sort();
    v.dedup();
    v
}
pub fn u64_edges() -> Vec<u64> {
    let mut v = vec![];
    for b in [
        0u128,
        i8::MAX as u128,
        u8::MAX as u128,
        i16::MAX as u128,
        u16::MAX as u128,
        i32::MAX as u128,
        u32::MAX as u128,
        i64::MAX as u128,
        u64::MAX as u128,
        1u128 << 53,
        1u128 << 24,
        1u128 << 63,
    ] {
        for d in -2i128..=2 {
            let x = b as i128 + d;
            if x >= 0 && x <= u64::MAX as i128 {
                v.push(x as u64);
            }
        }
    }
    v.sort();
    v.dedup();
    v
}
pub fn f64_edges() -> Vec<f64> {
    let mut v: Vec<f64> = vec![
        0.0,
        -0.0,
        1.0,
        -1.0,
        0.5,
        1.5,
        -1.5,
        0.1,
        1e-7,
        1e16,
        1e21,
        1e22,
        1e300,
        -1e300,
        f64::MIN_POSITIVE,
        f64::from_bits(1),
        f64::MAX,
        f64::MIN,
        f64::EPSILON,
        9007199254740992.0,
        9007199254740994.0,
        9007199254740990.0,
        -9007199254740992.0,
        9223372036854775808.0,
        -9223372036854775808.0,
        18446744073709551616.0,
        18446744073709549568.0,
        9223372036854774784.0,
        4294967296.0,
        255.0,
        256.0,
        -128.0,
        2.2250738585072011e-308,
        f64::NAN,
        f64::INFINITY,
        f64::NEG_INFINITY,
    ];
    for b in [(1u64 << 53) as f64, (1u64 << 63) as f64, 1.0f64, 2.0f64] {
        v.push(f64::from_bits(b.to_bits() + 1));
        v.push(f64::from_bits(b.to_bits() - 1));
    }
    v
}

pub fn arb_i64() -> BoxedStrategy<i64> {
    let e = i64_edges();
    prop_oneof![
        3 => (0..e.len()).prop_map(move |i| e[i]),
        3 => -20i64..20,
        2 => -70000i64..70000,
        2 => any::<i64>(),
        1 => (0u32..63, any::<bool>(), -2i64..=2).prop_map(|(s, neg, d)| {
            let x = (1i64 << s).wrapping_add(d);
            if neg { x.wrapping_neg() } else { x }
        }),
    ]
    .boxed()
}
pub fn arb_u64() -> BoxedStrategy<u64> {
    let e = u64_edges();
    prop_oneof![
        3 => (0..e.len()).prop_map(move |i| e[i]),
        3 => 0u64..20,
        2 => 0u64..70000,
        2 => any::<u64>(),
        1 => (0u32..64, -2i64..=2).prop_map(|(s, d)| (1u64 << s).wrapping_add(d as u64)),
    ]
    .boxed()
}
pub fn arb_f64() -> BoxedStrategy<f64> {
    let e = f64_edges();
    prop_oneof![
        3 => (0..e.len()).prop_map(move |i| e[i]),
        2 => (-2000i32..2000).prop_map(|x| x as f64 / 8.0),
        2 => any::<u64>().prop_map(f64::from_bits),
        1 => any::<i64>().prop_map(|x| x as f64),
        1 => any::<u64>().prop_map(|x| x as f64),
        1 => (any::<i32>(), -30i32..30).prop_map(|(m, e)| m as f64 * 10f64.powi(e)),
        // doubles that are exactly an f32 (values that came in through a 32-bit float)
        2 => any::<u32>().prop_map(|b| f32::from_bits(b) as f64),
        1 => (-100000i32..100000, 1u32..7).prop_map(|(m, d)| (m as f32 / 10f32.powi(d as i32)) as f64),
    ]
    .boxed()
}
pub fn arb_f64_finite() -> BoxedStrategy<f64> {
    arb_f64().prop_map(|f| if f.is_finite() { f } else { 0.25 }).boxed()
}

pub fn arb_num(finite_only: bool) -> BoxedStrategy<N> {
    let f = if finite_only { arb_f64_finite() } else { arb_f64() };
    prop_oneof![
        3 => arb_u64().prop_map(N::U),
        3 => arb_i64().prop_map(N::I),
        3 => f.prop_map(N::F),
    ]
    .boxed()
}

// ---- trees ----------------------------------------------------------------------

#[derive(Clone, Copy, Debug)]
pub struct TreeParams {
    pub depth: u32,
    pub size: u32,
    pub fan: usize,
    pub finite_only: bool,
    /// occasional documents with sizes around the powers of two that byte-level code
    /// could trip over: 0 = never, 1 = up to ~300, 2 = up to ~70 000
    pub big: u8,
}
impl TreeParams {
    pub fn quick() -> Self {
        TreeParams { depth: 5, size: 40, fan: 6, finite_only: false, big: 0 }
    }
    pub fn thorough() -> Self {
        TreeParams { depth: 9, size: 120, fan: 8, finite_only: false, big: 0 }
    }
    pub fn small() -> Self {
        TreeParams { depth: 3, size: 12, fan: 4, finite_only: false, big: 0 }
    }
    pub fn finite(mut self) -> Self {
        self.finite_only = true;
        self
    }
    pub fn with_big(mut self, level: u8) -> Self {
        self.big = level;
        self
    }
}

const BIG_SIZES_1: &[usize] = &[15, 16, 17, 63, 64, 127, 128, 129, 255, 256, 257, 300];
const BIG_SIZES_2: &[usize] = &[255, 256, 257, 1000, 4095, 4096, 4097, 32767, 32768, 65535, 65536, 65537, 70000];

fn small_leaf(i: usize, seed: u16) -> M {
    match (i + seed as usize) % 7 {
        0 => M::Null,
        1 => M::Bool(i % 2 == 0),
        2 => M::Num(N::U(i as u64)),
        3 => M::Num(N::I(-(i as i64) - 1)),
        4 => M::Str(format!("s{i}")),
        5 => M::Num(N::F(i as f64 + 0.5)),
        _ => M::Str(String::new()),
    }
}

/// `n` numbers of one width class (a column of timestamps, measurements, ids): every entry
/// has the same encoded size
pub fn number_series(class: u8, n: usize, seed: u16) -> M {
    let s = seed as u64;
    M::Arr(
        (0..n as u64)
            .map(|i| {
                let k = i.wrapping_mul(2654435761).wrapping_add(s);
                M::Num(match class % 9 {
                    // epoch milliseconds: 9-byte unsigned integers
                    0 => N::U(1_695_800_000_000 + k % 100_000_000),
                    // doubles
                    1 => N::F((k % 100_000) as f64 / 8.0 - 1000.0),
                    // 9-byte negatives
                    2 => N::I(-5_000_000_000 - (k % 1_000_000) as i64),
                    // all 9-byte, integers and doubles interleaved
                    3 => match i % 3 {
                        0 => N::F(k as f64 * 0.5),
                        1 => N::U(u32::MAX as u64 + 1 + k % 1000),
                        _ => N::I(i32::MIN as i64 - 1 - (k % 1000) as i64),
                    },
                    // doubles with one integer among them
                    4 => {
                        if i == (s % n.max(1) as u64) {
                            N::U((1u64 << 40) + k % 7)
                        } else {
                            N::F(k as f64 + 0.25)
                        }
                    }
                    // 5-byte, 3-byte, 2-byte and 1-byte classes
                    5 => N::U(70_000 + k % 1_000_000),
                    6 => N::I(-300 - (k % 30_000) as i64),
                    7 => N::U(1 + k % 200),
                    _ => N::U(0),
                })
            })
            .collect(),
    )
}

/// a document with one large dimension; a pure function of three small parameters, so
/// that shrinking it is cheap
pub fn big_doc(kind: u8, size_sel: u8, seed: u16, level: u8) -> M {
    let sizes = if level >= 2 { BIG_SIZES_2 } else { BIG_SIZES_1 };
    let mut n = sizes[size_sel as usize % sizes.len()];
    // level 3: a payload just over 2^24 bytes (entry lengths that need more than 24 bits)
    if level >= 3 && matches!(kind % 10, 2 | 4 | 5) && size_sel % 32 == 0 {
        n = (1 << 24) + 5;
    }
    match kind % 10 {
        // wide array of mixed small scalars
        0 => M::Arr((0..n).map(|i| small_leaf(i, seed)).collect()),
        // wide object
        1 => M::Obj((0..n).map(|i| (format!("k{i:06}"), small_leaf(i, seed))).collect()),
        // long string (ASCII or multi-byte)
        2 => M::Str(if seed % 2 == 0 { "x".repeat(n) } else { "é".repeat(n / 2 + 1) }),
        // deep nesting, alternating arrays and objects (kept well below any stack limit)
        3 => {
            // up to 100 at level 1 (as before); from level 2 also just past 128, where a guard against
            // deep recursion would be placed. Kept below 256: the comparable key's u8 depth counter
            // overflows there (known finding F20-u8-depth, reported by C20 and only there), and a
            // couple of hundred levels are far from any stack limit
            let d = if level >= 2 {
                [10usize, 16, 17, 31, 32, 33, 64, 100, 129, 130, 200, 250][size_sel as usize % 12]
            } else {
                [10usize, 16, 17, 31, 32, 33, 64, 100][size_sel as usize % 8]
            };
            let mut m = small_leaf(seed as usize, seed);
            // the nested child is sometimes followed by a sibling, sometimes preceded by one
            for i in 0..d {
                m = match (i + seed as usize) % 4 {
                    0 => M::Arr(vec![M::Null, m]),
                    1 => M::Obj([("k".to_string(), m), ("a".to_string(), M::Bool(true))].into_iter().collect()),
                    2 => M::Arr(vec![m, M::Str("b".into())]),
                    _ => M::Obj([("k".to_string(), m), ("z".to_string(), M::Null)].into_iter().collect()),
                };
            }
            m
        }
        // array whose LAST element follows a long payload (offsets beyond 64 KiB)
        4 => M::Arr(vec![M::Str("y".repeat(n)), M::Arr(vec![M::Num(N::U(7))]), M::Str("tail".into())]),
        // object with a long key and a long value before other members
        5 => M::Obj([("a".repeat(n), M::Null), ("b".to_string(), M::Str("z".repeat(n))), ("c".to_string(), M::Arr(vec![M::Bool(false)]))].into_iter().collect()),
        // wide array of small containers
        6 => M::Arr((0..n.min(20000)).map(|i| if i % 2 == 0 { M::Arr(vec![small_leaf(i, seed)]) } else { M::Obj([(format!("k{}", i % 5), small_leaf(i, seed))].into_iter().collect()) }).collect()),
        // many empty containers (each is a header-only nested container)
        7 => M::Arr(
            (0..n)
                .map(|i| match (i + seed as usize) % 4 {
                    0 => M::Arr(vec![]),
                    1 => M::Obj(BTreeMap::new()),
                    2 => M::Obj([("e".to_string(), M::Arr(vec![])), ("o".to_string(), M::Obj(BTreeMap::new()))].into_iter().collect()),
                    _ => M::Str(String::new()),
                })
                .collect(),
        ),
        // a long column of numbers of one width
        8 => number_series((seed >> 3) as u8, n, seed),
        // heavy duplication
        _ => M::Arr((0..n).map(|i| small_leaf(i % 3, seed)).collect()),
    }
}

pub fn arb_scalar(finite_only: bool) -> BoxedStrategy<M> {
    prop_oneof![
        2 => Just(M::Null),
        2 => any::<bool>().prop_map(M::Bool),
        5 => arb_num(finite_only).prop_map(M::Num),
        5 => arb_string().prop_map(M::Str),
    ]
    .boxed()
}

pub fn arb_tree(p: TreeParams) -> BoxedStrategy<M> {
    let leaf = prop_oneof![
        8 => arb_scalar(p.finite_only),
        1 => Just(M::Arr(vec![])),
        1 => Just(M::Obj(BTreeMap::new())),
    ];
    let fan = p.fan;
    leaf.prop_recursive(p.depth, p.size, fan as u32, move |inner| {
        prop_oneof![
            4 => vec(inner.clone(), 0..=fan).prop_map(M::Arr),
            4 => vec((arb_key(), inner.clone()), 0..=fan).prop_map(|kv| M::Obj(kv.into_iter().collect())),
            // equal siblings
            1 => (inner.clone(), 1usize..4).prop_map(|(x, n)| M::Arr(vec![x; n])),
            // adjacent siblings that are equal as values but not identical (re-typed numbers)
            1 => (inner.clone(), any::<u16>(), any::<bool>()).prop_map(|(x, k, as_obj)| {
                let y = retype_all(&x, k);
                if as_obj {
                    M::Obj([("max".to_string(), x), ("min".to_string(), y)].into_iter().collect())
                } else {
                    M::Arr(vec![x, y])
                }
            }),
            // a column of 12-40 numbers of one width class
            1 => (any::<u8>(), 12usize..40, any::<u16>()).prop_map(|(c, n, seed)| number_series(c, n, seed)),
            // adjacent objects with the same number of keys whose keys concatenate to the same
            // bytes but split differently ({"a","bc"} / {"ab","c"})
            1 => (inner.clone(), inner.clone(), any::<u16>()).prop_map(|(v1, v2, k)| {
                let (o1, o2) = split_key_objects(k, &v1, &v2);
                M::Arr(vec![o1, o2])
            }),
        ]
    })
    .boxed()
}

/// every number re-typed (where another representation holds the same value)
pub fn retype_all(m: &M, k: u16) -> M {
    match m {
        M::Num(n) => M::Num(retype(*n, k)),
        M::Arr(a) => M::Arr(a.iter().enumerate().map(|(i, x)| retype_all(x, k.wrapping_add(i as u16))).collect()),
        M::Obj(o) => M::Obj(o.iter().enumerate().map(|(i, (kk, v))| (kk.clone(), retype_all(v, k.wrapping_add(i as u16)))).collect()),
        x => x.clone(),
    }
}

/// two objects, same key count, same concatenated sorted keys, different key boundaries
pub fn split_key_objects(k: u16, v1: &M, v2: &M) -> (M, M) {
    let sets: [([&str; 2], [&str; 2]); 5] = [
        (["a", "bc"], ["ab", "c"]),
        (["k", "ke"], ["kk", "e"]),
        (["", "ab"], ["a", "b"]),
        (["A", "Aa"], ["AA", "a"]),
        (["é", "éz"], ["éé", "z"]),
    ];
    let (x, y) = sets[k as usize % sets.len()];
    let mk = |keys: [&str; 2], swap: bool| {
        let (a, b) = if swap { (v2, v1) } else { (v1, v2) };
        M::Obj([(keys[0].to_string(), a.clone()), (keys[1].to_string(), b.clone())].into_iter().collect())
    };
    (mk(x, false), mk(y, k & 0x100 != 0))
}

/// a document that is a container at top level most of the time
pub fn arb_doc(p: TreeParams) -> BoxedStrategy<M> {
    let fan = p.fan;
    if p.big > 0 {
        let level = p.big;
        let mut q = p;
        q.big = 0;
        return prop_oneof![
            250 => arb_doc(q),
            1 => (any::<u8>(), any::<u8>(), any::<u16>(), 0u8..6).prop_map(move |(k, s, seed, wrap)| {
                let big = big_doc(k, s, seed, level);
                // half of the time the large container sits inside another one, between siblings
                match wrap {
                    0 => M::Obj([("a".to_string(), M::Str("before".into())), ("settings".to_string(), big), ("z".to_string(), M::Num(N::U(9)))].into_iter().collect()),
                    1 => M::Arr(vec![M::Num(N::I(-1)), big, M::Str("after".into())]),
                    2 => M::Arr(vec![M::Obj([("k".to_string(), big)].into_iter().collect()), M::Null]),
                    _ => big,
                }
            }),
        ]
        .boxed();
    }
    prop_oneof![
        1 => arb_scalar(p.finite_only),
        1 => arb_tree(p),
        3 => vec(arb_tree(p), 0..=fan).prop_map(M::Arr),
        3 => vec((arb_key(), arb_tree(p)), 0..=fan).prop_map(|kv| M::Obj(kv.into_iter().collect())),
    ]
    .boxed()
}

// ---- derived documents ------------------------------------------------------------

/// paths to every node, in pre-order
fn node_count(m: &M) -> usize {
    m.size()
}

fn with_node<R>(m: &mut M, mut idx: usize, f: &mut dyn FnMut(&mut M) -> R) -> Option<R> {
    fn go<R>(m: &mut M, idx: &mut usize, f: &mut dyn FnMut(&mut M) -> R) -> Option<R> {
        if *idx == 0 {
            return Some(f(m));
        }
        *idx -= 1;
        match m {
            M::Arr(a) => {
                for x in a.iter_mut() {
                    if let Some(r) = go(x, idx, f) {
                        return Some(r);
                    }
                }
                None
            }
            M::Obj(o) => {
                for x in o.values_mut() {
                    if let Some(r) = go(x, idx, f) {
                        return Some(r);
                    }
                }
                None
            }
            _ => None,
        }
    }
    go(m, &mut idx, f)
}

/// re-type a number without changing its value, when another representation holds it
pub fn retype(n: N, k: u16) -> N {
    // zeros: all of 0, Int64(0), 0.0 and -0.0 are the same number
    let is_zero = match n {
        N::U(v) => v == 0,
        N::I(v) => v == 0,
        N::F(f) => f == 0.0,
    };
    if is_zero {
        return match k % 4 {
            0 => N::U(0),
            1 => N::F(0.0),
            2 => N::F(-0.0),
            _ => N::I(0),
        };
    }
    match n {
        N::U(v) => match k % 2 {
            0 if v <= i64::MAX as u64 => N::I(v as i64),
            _ => {
                let f = v as f64;
                if f < 18446744073709551616.0 && f as u64 == v {
                    N::F(f)
                } else {
                    n
                }
            }
        },
        N::I(v) => match k % 2 {
            0 if v >= 0 => N::U(v as u64),
            _ => {
                let f = v as f64;
                if f >= -9223372036854775808.0 && f < 9223372036854775808.0 && f as i64 == v {
                    N::F(f)
                } else {
                    n
                }
            }
        },
        N::F(f) => {
            if f.fract() == 0.0 && f >= 0.0 && f < 18446744073709551616.0 && k % 2 == 0 {
                N::U(f as u64)
            } else if f.fract() == 0.0 && f >= -9223372036854775808.0 && f < 9223372036854775808.0 {
                N::I(f as i64)
            } else {
                n
            }
        }
    }
}

#[derive(Clone, Copy, Debug, PartialEq, Eq)]
pub enum MutKind {
    /// changes that keep "b is contained in a": drop members/elements, reorder and
    /// duplicate array elements, re-type numbers
    Shrinking,
    /// changes that alter content: replace a leaf, add a member, wrap, change kind
    Breaking,
    Any,
}

/// one small mutation at a pseudo-random node, driven by generated choices
pub fn mutate_once(m: &M, sel: u16, op: u16, arg: u16, repl: &M, kind: MutKind) -> M {
    let mut out = m.clone();
    let n = node_count(&out);
    let idx = pick(sel, n);
    let shrinking: u16 = 6;
    let breaking: u16 = 9;
    let opn = match kind {
        MutKind::Shrinking => op % shrinking,
        MutKind::Breaking => shrinking + op % breaking,
        MutKind::Any => op % (shrinking + breaking),
    };
    with_node(&mut out, idx, &mut |node: &mut M| match opn {
        // --- containment preserving ---
        0 => match node {
            M::Arr(a) if !a.is_empty() => {
                let i = pick(arg, a.len());
                a.remove(i);
            }
            M::Obj(o) if !o.is_empty() => {
                let k = o.keys().nth(pick(arg, o.len())).unwrap().clone();
                o.remove(&k);
            }
            _ => {}
        },
        1 => {
            if let M::Arr(a) = node {
                if !a.is_empty() {
                    let i = pick(arg, a.len());
                    let x = a[i].clone();
                    a.push(x);
                }
            }
        }
        2 => {
            if let M::Arr(a) = node {
                if a.len() > 1 {
                    let i = pick(arg, a.len());
                    a.rotate_left(i);
                }
            }
        }
        3 => {
            if let M::Arr(a) = node {
                a.reverse();
            }
        }
        4 | 5 => {
            // re-type the first number found at or below this node
            fn first_num(m: &mut M, k: u16) -> bool {
                match m {
                    M::Num(n) => {
                        *n = retype(*n, k);
                        true
                    }
                    M::Arr(a) => a.iter_mut().any(|x| first_num(x, k)),
                    M::Obj(o) => o.values_mut().any(|x| first_num(x, k)),
                    _ => false,
                }
            }
            first_num(node, arg);
        }
        // --- content changing ---
        6 => *node = repl.clone(),
        7 => match node {
            M::Arr(a) => {
                let i = pick(arg, a.len() + 1);
                a.insert(i, repl.clone());
            }
            M::Obj(o) => {
                o.insert(format!("k{}", arg % 7), repl.clone());
            }
            _ => *node = repl.clone(),
        },
        8 => {
            let inner = node.clone();
            *node = M::Arr(vec![inner]);
        }
        9 => {
            let inner = match node {
                M::Arr(a) if !a.is_empty() => Some(a[pick(arg, a.len())].clone()),
                M::Obj(o) if !o.is_empty() => Some(o.values().nth(pick(arg, o.len())).unwrap().clone()),
                _ => None,
            };
            if let Some(i) = inner {
                *node = i;
            }
        }
        10 => match node {
            M::Num(N::I(v)) => *v = v.wrapping_add(1),
            M::Num(N::U(v)) => *v = v.wrapping_add(1),
            M::Num(N::F(v)) => {
                if arg % 4 == 0 {
                    *v = -*v
                } else {
                    *v = f64::from_bits(v.to_bits().wrapping_add(1))
                }
            }
            M::Str(s) => s.push(['\u{0}', 'a', ' ', '!', '#', '~', '\u{7f}', 'é', '"', '\\'][arg as usize % 10]),
            M::Bool(b) => *b = !*b,
            M::Null => *node = M::Bool(false),
            M::Arr(a) => a.push(M::Null),
            M::Obj(o) => {
                o.insert(String::new(), M::Null);
            }
        },
        11 => match node {
            M::Str(s) => {
                s.pop();
            }
            M::Arr(a) => *node = M::Obj(a.iter().enumerate().map(|(i, x)| (format!("{i}"), x.clone())).collect()),
            M::Obj(o) => *node = M::Arr(o.values().cloned().collect()),
            M::Num(n) => *node = M::Str(format!("{:?}", n)),
            _ => *node = M::Null,
        },
        12 => {
            let inner = node.clone();
            let mut o = BTreeMap::new();
            o.insert(format!("w{}", arg % 3), inner);
            *node = M::Obj(o);
        }
        14 => {
            // a string whose bytes are exactly a number's encoding, and the reverse ("PA" / 65)
            match node {
                M::Num(n) => {
                    if let Ok(t) = String::from_utf8(n.enc_vec()) {
                        *node = M::Str(t);
                    }
                }
                M::Str(t) => {
                    if let Ok(n) = N::dec_strict(t.as_bytes()) {
                        *node = M::Num(n);
                    } else if arg % 2 == 0 {
                        *node = M::Str(String::from_utf8(N::U(65 + (arg % 26) as u64).enc_vec()).unwrap());
                    }
                }
                _ => {}
            }
        }
        _ => {
            // rename a key to a case variant of itself (a different key)
            if let M::Obj(o) = node {
                if !o.is_empty() {
                    let k = o.keys().nth(pick(arg, o.len())).unwrap().clone();
                    let k2 = if arg % 2 == 0 { swap_ascii_case(&k) } else { k.to_uppercase() };
                    if k2 != k && !o.contains_key(&k2) {
                        let v = o.remove(&k).unwrap();
                        o.insert(k2, v);
                    }
                }
            }
        }
    });
    out
}

crate::jser_struct! {
    pub struct Mutation {
        pub sel: u16,
        pub op: u16,
        pub arg: u16,
        pub repl: M,
    }
}

pub fn arb_mutation() -> BoxedStrategy<Mutation> {
    (any::<u16>(), any::<u16>(), any::<u16>(), arb_tree(TreeParams::small()))
        .prop_map(|(sel, op, arg, repl)| Mutation { sel, op, arg, repl })
        .boxed()
}

pub fn apply_mutations(m: &M, muts: &[Mutation], kind: MutKind) -> M {
    let mut cur = m.clone();
    for mu in muts {
        cur = mutate_once(&cur, mu.sel, mu.op, mu.arg, &mu.repl, kind);
    }
    cur
}

// ---- arguments drawn from a document ----------------------------------------------

/// keys of the top-level object, then keys found anywhere below
pub fn all_keys(m: &M) -> Vec<String> {
    fn go(m: &M, out: &mut Vec<String>) {
        match m {
            M::Arr(a) => a.iter().for_each(|x| go(x, out)),
            M::Obj(o) => {
                for (k, v) in o {
                    if !out.contains(k) {
                        out.push(k.clone());
                    }
                    go(v, out);
                }
            }
            _ => {}
        }
    }
    let mut out = vec![];
    go(m, &mut out);
    out
}
pub fn top_keys(m: &M) -> Vec<String> {
    match m {
        M::Obj(o) => o.keys().cloned().collect(),
        _ => vec![],
    }
}
pub fn all_strings(m: &M) -> Vec<String> {
    fn go(m: &M, out: &mut Vec<String>) {
        match m {
            M::Str(s) => out.push(s.clone()),
            M::Arr(a) => a.iter().for_each(|x| go(x, out)),
            M::Obj(o) => o.values().for_each(|x| go(x, out)),
            _ => {}
        }
    }
    let mut out = vec![];
    go(m, &mut out);
    out
}

fn swap_ascii_case(s: &str) -> String {
    s.chars()
        .map(|c| if c.is_ascii_lowercase() { c.to_ascii_uppercase() } else { c.to_ascii_lowercase() })
        .collect()
}

/// a name that hits or narrowly misses one of `keys`
pub fn derive_name(keys: &[String], sel: u16, mode: u16, extra: &str) -> String {
    if keys.is_empty() {
        return extra.to_string();
    }
    // the last and the first key are favoured: lookups that bisect or scan trip at the ends
    let k = &keys[match sel % 8 {
        0 | 1 => keys.len() - 1,
        2 => 0,
        3 => keys.len() / 2,
        _ => pick(sel, keys.len()),
    }];
    match mode % 11 {
        0 | 1 | 2 => k.clone(),
        3 => swap_ascii_case(k),
        4 => k.to_ascii_uppercase(),
        5 => {
            let mut c: Vec<char> = k.chars().collect();
            c.pop();
            c.into_iter().collect()
        }
        6 => format!("{k}{extra}"),
        // equal under Unicode case folding but not under ASCII-only folding
        7 => k.to_lowercase(),
        8 => k.to_uppercase(),
        9 => k.chars().map(|c| if c == 'k' { '\u{212a}' } else if c == 's' { '\u{17f}' } else { c }).collect(),
        _ => extra.to_string(),
    }
}

/// an index around the ends of a list of length `len`, or an extreme
pub fn derive_index(len: usize, sel: u16) -> i64 {
    let l = len as i64;
    let span = 2 * l + 5; // -len-2 ..= len+2
    let extremes = [i32::MIN as i64, i32::MIN as i64 + 1, i32::MAX as i64 - 1, i32::MAX as i64];
    if len > 16 && sel % 4 == 0 {
        let specials = [l - 1, l - 2, -1, -l, 255, 256, 257, 4095, 4096, 32767, 32768, 65535, 65536, l / 2];
        let v = specials[(sel as usize / 4) % specials.len()];
        return v.clamp(-l - 2, l + 2);
    }
    let n = span as usize + extremes.len();
    let i = pick(sel, n);
    if (i as i64) < span {
        // shrink towards 0: order 0,1,-1,2,-2,...
        let k = i as i64;
        let v = if k % 2 == 1 { (k + 1) / 2 } else { -(k / 2) };
        v.clamp(-l - 2, l + 2)
    } else {
        extremes[i - span as usize]
    }
}

/// random walk into the document, producing a key path that resolves most of the time
pub fn derive_path(m: &M, steps: &[(u16, u16, u16)], extra: &str) -> Vec<crate::treefn::KP> {
    use crate::treefn::KP;
    let mut out = vec![];
    let mut cur = Some(m);
    for (sel, mode, aux) in steps {
        match cur {
            Some(M::Arr(a)) => {
                let idx = match mode % 8 {
                    0..=3 if !a.is_empty() => pick(*sel, a.len()) as i64,
                    4 | 5 if !a.is_empty() => pick(*sel, a.len()) as i64 - a.len() as i64,
                    6 => derive_index(a.len(), *aux),
                    _ => {
                        let strs: Vec<&String> = a.iter().filter_map(|x| if let M::Str(s) = x { Some(s) } else { None }).collect();
                        let name = if !strs.is_empty() && sel % 2 == 0 { strs[pick(*aux, strs.len())].clone() } else if aux % 2 == 0 { extra.to_string() } else { format!("{}", sel % 3) };
                        out.push(if aux % 4 < 2 { KP::Name(name) } else { KP::Quoted(name) });
                        cur = None;
                        continue;
                    }
                };
                out.push(KP::Index(idx.clamp(i32::MIN as i64, i32::MAX as i64) as i32));
                cur = crate::treefn::resolve_index(a.len(), idx).map(|i| &a[i]);
            }
            Some(M::Obj(o)) => {
                let keys: Vec<String> = o.keys().cloned().collect();
                if mode % 8 == 7 {
                    out.push(KP::Index((*aux % 5) as i32 - 2));
                    cur = None;
                    continue;
                }
                let name = derive_name(&keys, *sel, if mode % 8 < 5 { 0 } else { *aux }, extra);
                cur = o.get(&name);
                out.push(if aux % 2 == 0 { KP::Name(name) } else { KP::Quoted(name) });
            }
            _ => {
                // into or past a scalar, or after a miss
                out.push(match mode % 3 {
                    0 => KP::Index((*aux % 5) as i32 - 2),
                    1 => KP::Name(extra.to_string()),
                    _ => KP::Quoted(extra.to_string()),
                });
                cur = None;
            }
        }
    }
    out
}


/// a pair of adjacent children of some container of `m` (what sorting or de-duplicating a
/// list compares with each other); `m` itself twice when there is none
pub fn sibling_pair(m: &M, sel: u16) -> (M, M) {
    fn collect<'a>(m: &'a M, out: &mut Vec<(&'a M, &'a M)>) {
        if out.len() >= 64 {
            return;
        }
        match m {
            M::Arr(a) => {
                for w in a.windows(2) {
                    out.push((&w[0], &w[1]));
                }
                a.iter().take(64).for_each(|x| collect(x, out));
            }
            M::Obj(o) => {
                let v: Vec<&M> = o.values().collect();
                for w in v.windows(2) {
                    out.push((w[0], w[1]));
                }
                v.into_iter().take(64).for_each(|x| collect(x, out));
            }
            _ => {}
        }
    }
    let mut out = vec![];
    collect(m, &mut out);
    if out.is_empty() {
        return (m.clone(), m.clone());
    }
    // containers first: pairs of scalars are what every other generator produces anyway
    let (cont, rest): (Vec<_>, Vec<_>) = out.into_iter().partition(|(x, y)| x.is_container() && y.is_container());
    let pool = if !cont.is_empty() && sel % 4 != 0 { cont } else if !rest.is_empty() { rest } else { cont };
    let (x, y) = pool[pick(sel / 4, pool.len())];
    if sel & 0x8000 != 0 {
        (y.clone(), x.clone())
    } else {
        (x.clone(), y.clone())
    }
}
