//! vcheck — parent / worker / replay driver. See /verif/DESIGN.md §2.
//!
//!   vcheck <ID> [--tier quick|thorough]      run a property check (parent)
//!   vcheck replay <file>                     re-run one saved case through its oracle
//!   vcheck --worker <ID> <tier> <seed> <i> <n> <out>   (internal)
//!   vcheck list

use serde_json::{json, Value as J};
use std::collections::{BTreeMap, HashSet};
use std::io::Write;
use std::process::{Command, Stdio};
use std::time::{Duration, Instant};
use vcore::engine::{install_panic_hook, Ctx, Tier};
use vcore::{known, props};

const VERIF: &str = "/verif";

fn main() {
    let args: Vec<String> = std::env::args().skip(1).collect();
    if args.is_empty() {
        eprintln!("usage: vcheck <ID> [--tier quick|thorough] | replay <file> | list");
        std::process::exit(2);
    }
    let code = match args[0].as_str() {
        "--worker" => worker(&args[1..]),
        "--probe" => vcore::props::probe_main(&args[1..]),
        "replay" => replay(&args[1..]),
        "list" => {
            for p in props::all() {
                println!("{} {}", p.id, p.title);
            }
            0
        }
        id => parent(id, &args[1..]),
    };
    std::process::exit(code);
}

fn verif_dir() -> String {
    std::env::var("VERIF_DIR").unwrap_or_else(|_| VERIF.to_string())
}

// ---------------------------------------------------------------------------------

fn worker(a: &[String]) -> i32 {
    let id = &a[0];
    let tier = if a[1] == "thorough" { Tier::Thorough } else { Tier::Quick };
    let seed: u64 = a[2].parse().unwrap();
    let idx: usize = a[3].parse().unwrap();
    let n: usize = a[4].parse().unwrap();
    let out = &a[5];
    install_panic_hook();
    let prop = match props::get(id) {
        Some(p) => p,
        None => return 2,
    };
    let mut ctx = Ctx::new(tier, seed, idx, n);
    ctx.out_path = out.clone();
    ctx.progress = std::fs::File::create(format!("{out}.progress")).ok();
    if let Ok(t) = std::env::var("VERIF_TRACE_AT") {
        if let Some((s, k)) = t.split_once(':') {
            ctx.trace_at = k.parse().ok().map(|k| (s.to_string(), k));
        }
    }
    let mut per_sub = BTreeMap::new();
    for sub in &prop.subs {
        if let Ok(only) = std::env::var("VERIF_ONLY_SUB") {
            if only != sub.name {
                continue;
            }
        }
        if let Some(f) = &ctx.progress {
            use std::os::unix::fs::FileExt;
            let _ = f.write_at(format!("ENUM {}                              \n", sub.name).as_bytes(), 0);
        }
        let before = ctx.evals;
        let t = Instant::now();
        if let Err(p) = vcore::engine::guard(|| (sub.run)(&mut ctx)) {
            ctx.fail(sub.name, J::Null, format!("[harness-internal] {} (outside a check, e.g. in a generator)", p.describe()));
        }
        per_sub.insert(sub.name.to_string(), json!({"evaluations": ctx.evals - before, "wall_s": t.elapsed().as_secs_f64()}));
        if ctx.failure.is_some() {
            break;
        }
    }
    // hashes to a side file
    let mut hb = Vec::with_capacity(ctx.nt_hashes.len() * 8);
    for h in &ctx.nt_hashes {
        hb.extend_from_slice(&h.to_le_bytes());
    }
    std::fs::write(format!("{out}.hashes"), hb).ok();
    let res = json!({
        "evals": ctx.evals,
        "nt_enumerated": ctx.nt_enumerated,
        "labels": ctx.labels,
        "excluded": ctx.excluded,
        "samples": ctx.samples,
        "biggest": ctx.biggest.as_ref().map(|(_, j)| j.clone()),
        "extra": ctx.extra,
        "per_sub": per_sub,
        "failure": ctx.failure.as_ref().map(|f| json!({
            "sub": f.sub, "case": f.case, "message": f.message, "internal": f.internal})),
    });
    std::fs::write(out, serde_json::to_vec(&res).unwrap()).unwrap();
    0
}

// ---------------------------------------------------------------------------------

fn replay(a: &[String]) -> i32 {
    let path = match a.first() {
        Some(p) => p,
        None => {
            eprintln!("usage: vcheck replay <file>");
            return 2;
        }
    };
    // run the case in a child so that a crash of the library is a verdict, not the end of the tool
    if std::env::var("VERIF_REPLAY_CHILD").is_err() {
        use std::os::unix::process::ExitStatusExt;
        let exe = std::env::current_exe().unwrap();
        let st = Command::new(exe).args(["replay", path]).env("VERIF_REPLAY_CHILD", "1").stdin(Stdio::null()).status();
        return match st {
            Ok(st) => match (st.code(), st.signal()) {
                (Some(c), _) => c,
                (None, Some(sig)) => {
                    let id = std::fs::read_to_string(path)
                        .ok()
                        .and_then(|t| vcore::jser::parse_json(t.as_bytes()).ok())
                        .and_then(|j| j["property"].as_str().map(|s| s.to_string()))
                        .unwrap_or_default();
                    println!("FAIL property={id}: the process running this case was killed by signal {sig} (stack exhaustion or abort inside the library)");
                    println!("VIOLATION property={id} replay={path}");
                    1
                }
                _ => 2,
            },
            Err(e) => {
                eprintln!("cannot spawn replay child: {e}");
                2
            }
        };
    }
    install_panic_hook();
    let txt = match std::fs::read_to_string(path) {
        Ok(t) => t,
        Err(e) => {
            eprintln!("cannot read {path}: {e}");
            return 2;
        }
    };
    let j: J = match vcore::jser::parse_json(txt.as_bytes()) {
        Ok(j) => j,
        Err(e) => {
            eprintln!("{path} is not a replay file: {e}");
            return 2;
        }
    };
    let id = j["property"].as_str().unwrap_or("");
    let subn = j["sub"].as_str().unwrap_or("");
    let prop = match props::get(id) {
        Some(p) => p,
        None => {
            eprintln!("unknown property {id}");
            return 2;
        }
    };
    let sub = match prop.subs.iter().find(|s| s.name == subn) {
        Some(s) => s,
        None => {
            eprintln!("unknown sub-check {subn} of {id}");
            return 2;
        }
    };
    known::set_strict(true);
    match (sub.replay)(&j["case"]) {
        Ok(()) => {
            println!("PASS property={id} sub={subn}: the saved case satisfies the property on this tree");
            0
        }
        Err(m) if m.contains("[harness-internal]") => {
            println!("INTERNAL property={id} sub={subn}: {m}");
            2
        }
        Err(m) => {
            println!("FAIL property={id} sub={subn}: {m}");
            println!("VIOLATION property={id} replay={path}");
            1
        }
    }
}

// ---------------------------------------------------------------------------------

struct WorkerOut {
    j: Option<J>,
    hashes: Vec<u64>,
    status: String,
}

fn run_workers(id: &str, tier: Tier, seed: u64, n: usize, work: &str, timeout: Duration) -> Result<Vec<WorkerOut>, String> {
    let exe = std::env::current_exe().map_err(|e| e.to_string())?;
    let mut kids = vec![];
    for i in 0..n {
        let out = format!("{work}/worker-{i}.json");
        let _ = std::fs::remove_file(&out);
        let _ = std::fs::remove_file(format!("{out}.hashes"));
        let child = Command::new(&exe)
            .args(["--worker", id, tier.name(), &seed.to_string(), &i.to_string(), &n.to_string(), &out])
            .stdin(Stdio::null())
            .stdout(Stdio::null())
            .stderr(Stdio::inherit())
            .spawn()
            .map_err(|e| format!("spawn worker: {e}"))?;
        kids.push((child, out));
    }
    let t0 = Instant::now();
    let mut outs: Vec<Option<WorkerOut>> = (0..n).map(|_| None).collect();
    // stall detection: a generated case normally takes microseconds; a worker whose
    // "<sub> <k>" progress line has not changed for STALL seconds is stuck in one case
    let stall = Duration::from_secs(std::env::var("VERIF_STALL_SECS").ok().and_then(|s| s.parse().ok()).unwrap_or(180));
    let mut last_prog: Vec<(String, Instant)> = (0..n).map(|_| (String::new(), Instant::now())).collect();
    let mut tick = 0u64;
    loop {
        let mut pending = 0;
        tick += 1;
        for (i, (child, out)) in kids.iter_mut().enumerate() {
            if outs[i].is_some() {
                continue;
            }
            if tick % 50 == 0 {
                let cur = std::fs::read_to_string(format!("{out}.progress")).unwrap_or_default();
                if cur != last_prog[i].0 {
                    last_prog[i] = (cur, Instant::now());
                } else if !cur.starts_with("ENUM") && !cur.trim().is_empty() && last_prog[i].1.elapsed() > stall {
                    let _ = child.kill();
                    let _ = child.wait();
                    outs[i] = Some(WorkerOut { j: None, hashes: vec![], status: format!("STALLED {}", cur.trim()) });
                    continue;
                }
            }
            match child.try_wait() {
                Ok(Some(st)) => {
                    let j = std::fs::read(&*out).ok().and_then(|b| vcore::jser::parse_json(&b).ok());
                    let hashes = std::fs::read(format!("{out}.hashes"))
                        .map(|b| b.chunks_exact(8).map(|c| u64::from_le_bytes(c.try_into().unwrap())).collect())
                        .unwrap_or_default();
                    outs[i] = Some(WorkerOut { j, hashes, status: format!("{st}") });
                }
                Ok(None) => pending += 1,
                Err(e) => return Err(format!("wait: {e}")),
            }
        }
        if pending == 0 {
            break;
        }
        if t0.elapsed() > timeout {
            for (child, _) in kids.iter_mut() {
                let _ = child.kill();
                let _ = child.wait();
            }
            return Err(format!("watchdog: workers still running after {:?}", timeout));
        }
        std::thread::sleep(Duration::from_millis(20));
    }
    Ok(outs.into_iter().map(|o| o.unwrap()).collect())
}

fn parent(id: &str, rest: &[String]) -> i32 {
    let t0 = Instant::now();
    let mut tier = match std::env::var("VERIF_TIER").ok().as_deref() {
        Some("thorough") => Tier::Thorough,
        _ => Tier::Quick,
    };
    let mut i = 0;
    while i < rest.len() {
        if rest[i] == "--tier" && i + 1 < rest.len() {
            tier = if rest[i + 1] == "thorough" { Tier::Thorough } else { Tier::Quick };
            i += 1;
        }
        i += 1;
    }
    let seed: u64 = std::env::var("VERIF_SEED")
        .ok()
        .and_then(|s| s.trim().parse::<i128>().ok())
        .map(|v| v as u64)
        .unwrap_or(0);
    let n: usize = std::env::var("VERIF_JOBS").ok().and_then(|s| s.parse().ok()).unwrap_or(16).max(1);
    let prop = match props::get(id) {
        Some(p) => p,
        None => {
            eprintln!("unknown property {id}");
            return 2;
        }
    };
    let vd = verif_dir();
    let work = format!("{vd}/work/{id}-{}", tier.name());
    let _ = std::fs::remove_dir_all(&work);
    std::fs::create_dir_all(&work).unwrap();
    std::fs::create_dir_all(format!("{vd}/replays")).unwrap();
    std::fs::create_dir_all(format!("{vd}/evidence")).unwrap();
    install_panic_hook();

    let mut violations: Vec<(String, String)> = vec![]; // (replay path, message)
    let mut inconclusive: Vec<String> = vec![];
    let mut known_lines: Vec<String> = vec![];
    let mut known_reproduced = 0u64;

    // 1. known findings: replay each listed witness in strict mode
    for f in known::load().iter().filter(|f| f.property == id && f.status == "known") {
        if let Some(sub) = prop.subs.iter().find(|s| s.name == f.sub) {
            known::set_strict(true);
            let r = (sub.replay)(&f.witness);
            known::set_strict(false);
            match r {
                Err(m) if m.starts_with(&format!("KNOWN:{}", f.id)) => {
                    known_lines.push(format!("KNOWN-FINDING: property={id} {} [{}]", f.what, f.id));
                    known_reproduced += 1;
                }
                Err(m) if m.contains("[harness-internal]") => inconclusive.push(format!("witness of {}: {m}", f.id)),
                Err(m) => {
                    // fails, but not with the listed signature: a different violation
                    let p = write_replay(&vd, id, &f.sub, &f.witness, &m);
                    violations.push((p, format!("witness of {} fails with a different signature: {m}", f.id)));
                }
                Ok(()) => {} // no longer fails: nothing is printed
            }
        }
    }

    // 2. regression corpus: every committed case for this property, strict
    let mut corpus_n = 0u64;
    let cdir = format!("{vd}/corpus/{id}");
    // VERIF_NO_CORPUS=1 measures what the generated search finds on its own (self-test only)
    let rd = if std::env::var("VERIF_NO_CORPUS").is_ok() { Err(()) } else { std::fs::read_dir(&cdir).map_err(|_| ()) };
    if let Ok(rd) = rd {
        let mut files: Vec<_> = rd.filter_map(|e| e.ok()).map(|e| e.path()).filter(|p| p.extension().map(|x| x == "json").unwrap_or(false)).collect();
        files.sort();
        for p in files {
            let j: J = match std::fs::read(&p).ok().and_then(|t| vcore::jser::parse_json(&t).ok()) {
                Some(j) => j,
                None => continue,
            };
            let subn = j["sub"].as_str().unwrap_or("");
            if let Some(sub) = prop.subs.iter().find(|s| s.name == subn) {
                corpus_n += 1;
                known::set_strict(true);
                let r = (sub.replay)(&j["case"]);
                known::set_strict(false);
                match r {
                    Ok(()) => {}
                    Err(m) if m.starts_with("KNOWN:") => {}
                    Err(m) if m.contains("[harness-internal]") => inconclusive.push(format!("corpus {}: {m}", p.display())),
                    Err(m) => violations.push((p.display().to_string(), m)),
                }
            }
        }
    }

    // 3. generated search in worker processes
    let timeout = Duration::from_secs(match tier {
        Tier::Quick => 1500,
        Tier::Thorough => 6 * 3600,
    });
    let outs = match run_workers(id, tier, seed, n, &work, timeout) {
        Ok(o) => o,
        Err(e) => {
            inconclusive.push(e);
            vec![]
        }
    };
    let mut evals = 0u64;
    let mut nt_enum = 0u64;
    let mut hashes: HashSet<u64> = HashSet::new();
    let mut labels: BTreeMap<String, u64> = BTreeMap::new();
    let mut excluded: BTreeMap<String, u64> = BTreeMap::new();
    let mut samples: Vec<J> = vec![];
    let mut biggest: Option<J> = None;
    let mut extra: BTreeMap<String, J> = BTreeMap::new();
    let mut per_sub: BTreeMap<String, (u64, f64)> = BTreeMap::new();
    let mut seen_fail: HashSet<String> = HashSet::new();
    for (wi, o) in outs.iter().enumerate() {
        let j = match &o.j {
            Some(j) => j,
            None if o.status.starts_with("STALLED") => {
                inconclusive.push(format!(
                    "worker {wi} made no progress for the stall limit while running one case ({}); a hang is reported as inconclusive, not as a violation",
                    o.status
                ));
                continue;
            }
            None => {
                // the worker died (signal, abort): find the case it was running
                match trace_dead_worker(&prop, id, tier, seed, wi, n, &work, &vd) {
                    Ok(Some((p, m))) => violations.push((p, m)),
                    Ok(None) => inconclusive.push(format!("worker {wi} ended without a result ({}) and the case could not be isolated", o.status)),
                    Err(e) => inconclusive.push(format!("worker {wi} ended without a result ({}): {e}", o.status)),
                }
                continue;
            }
        };
        evals += j["evals"].as_u64().unwrap_or(0);
        nt_enum += j["nt_enumerated"].as_u64().unwrap_or(0);
        hashes.extend(o.hashes.iter().copied());
        for (k, v) in j["labels"].as_object().cloned().unwrap_or_default() {
            *labels.entry(k).or_insert(0) += v.as_u64().unwrap_or(0);
        }
        for (k, v) in j["excluded"].as_object().cloned().unwrap_or_default() {
            *excluded.entry(k).or_insert(0) += v.as_u64().unwrap_or(0);
        }
        for (k, v) in j["extra"].as_object().cloned().unwrap_or_default() {
            extra.insert(k, v);
        }
        for (k, v) in j["per_sub"].as_object().cloned().unwrap_or_default() {
            let e = per_sub.entry(k).or_insert((0, 0.0));
            e.0 += v["evaluations"].as_u64().unwrap_or(0);
            e.1 = e.1.max(v["wall_s"].as_f64().unwrap_or(0.0));
        }
        if samples.len() < 4 {
            for s in j["samples"].as_array().cloned().unwrap_or_default() {
                if samples.len() < 4 {
                    samples.push(s);
                }
            }
        }
        if !j["biggest"].is_null() {
            let b = j["biggest"].clone();
            if biggest.as_ref().map(|x| x.to_string().len() < b.to_string().len()).unwrap_or(true) {
                biggest = Some(b);
            }
        }
        if !j["failure"].is_null() {
            let f = &j["failure"];
            let msg = f["message"].as_str().unwrap_or("").to_string();
            if f["internal"].as_bool().unwrap_or(false) {
                inconclusive.push(format!("worker {wi}: {msg}"));
            } else {
                let subn = f["sub"].as_str().unwrap_or("");
                // confirm once more through the replay path, in this process
                let confirmed = prop
                    .subs
                    .iter()
                    .find(|s| s.name == subn)
                    .map(|s| {
                        known::set_strict(true);
                        let r = (s.replay)(&f["case"]);
                        known::set_strict(false);
                        r
                    })
                    .unwrap_or(Ok(()));
                match confirmed {
                    Err(m2) if m2.contains("[harness-internal]") => inconclusive.push(format!("worker {wi}: {m2}")),
                    Err(m2) if m2.starts_with("KNOWN:") => {
                        // shrinking drifted into a known class; not a new violation
                        *excluded.entry("drifted-into-known-while-shrinking".into()).or_insert(0) += 1;
                    }
                    Err(m2) => {
                        // one report per root-cause signature: the message with the
                        // case-specific digits removed
                        let key: String = format!("{subn}:{}", m2.chars().take(20).collect::<String>());
                        if seen_fail.insert(key) && violations.len() < 4 {
                            let p = write_replay(&vd, id, subn, &f["case"], &m2);
                            violations.push((p, m2));
                        }
                    }
                    Ok(()) => inconclusive.push(format!(
                        "worker {wi} reported a failure that does not reproduce on replay: {msg}"
                    )),
                }
            }
        }
    }
    // 3b. coverage-guided campaign (thorough tier, byte-string domains)
    let mut fuzz_stats: Option<J> = None;
    if tier == Tier::Thorough && violations.is_empty() && std::env::var("VERIF_NO_FUZZ").is_err() {
        if let Some(target) = fuzz_target_of(id) {
            match run_fuzz(&prop, id, target, seed, n, &work, &vd) {
                Ok((stats, mut v, mut inc)) => {
                    fuzz_stats = Some(stats);
                    violations.append(&mut v);
                    inconclusive.append(&mut inc);
                }
                Err(e) => inconclusive.push(format!("fuzz campaign: {e}")),
            }
        }
    }
    if let Some(b) = biggest {
        samples.push(json!({"largest_nontrivial_case": b}));
    }
    if samples.is_empty() {
        samples.push(json!("no non-trivial case was generated"));
    }

    // 4. evidence
    let wall = t0.elapsed().as_secs_f64();
    let mut coverage = serde_json::Map::new();
    coverage.insert("evaluations".into(), json!(evals));
    coverage.insert("distinct_nontrivial".into(), json!(hashes.len() as u64 + nt_enum));
    coverage.insert("rule".into(), json!(prop.rule.split_whitespace().collect::<Vec<_>>().join(" ")));
    coverage.insert("samples".into(), J::Array(samples));
    coverage.insert("labels".into(), json!(labels));
    coverage.insert("per_sub".into(), json!(per_sub.iter().map(|(k, v)| (k.clone(), json!({"evaluations": v.0, "max_worker_wall_s": v.1}))).collect::<BTreeMap<_, _>>()));
    coverage.insert("excluded_known".into(), json!(excluded));
    coverage.insert("known_findings_reproduced".into(), json!(known_reproduced));
    coverage.insert("regression_corpus_cases".into(), json!(corpus_n));
    coverage.insert("workers".into(), json!(n));
    coverage.insert("inconclusive".into(), json!(inconclusive));
    for (k, v) in extra {
        coverage.insert(k, v);
    }
    if let Some(f) = fuzz_stats {
        coverage.insert("fuzz".into(), f);
    }
    let ev = json!({
        "property_id": id,
        "tier": tier.name(),
        "seed": seed as i64,
        "level": "exploration",
        "coverage": J::Object(coverage),
        "assumptions": prop.assumptions,
        "wall_s": wall,
        "violations": violations.len(),
    });
    let evp = format!("{vd}/evidence/{id}.json");
    let mut f = std::fs::File::create(&evp).unwrap();
    f.write_all(serde_json::to_string_pretty(&ev).unwrap().as_bytes()).unwrap();
    f.write_all(b"\n").unwrap();

    // 5. verdict
    for l in &known_lines {
        println!("{l}");
    }
    println!(
        "{id} {}: {} evaluations, {} distinct non-trivial, {} known-class cases tolerated, {:.1}s",
        tier.name(),
        evals,
        hashes.len() as u64 + nt_enum,
        excluded.values().sum::<u64>(),
        wall
    );
    if !violations.is_empty() {
        for (p, m) in &violations {
            println!("  {}", vcore::engine::truncate(m, 600).replace('\n', "\n  "));
            println!("VIOLATION property={id} replay={p}");
        }
        return 1;
    }
    if !inconclusive.is_empty() {
        for m in &inconclusive {
            println!("INCONCLUSIVE {id}: {}", vcore::engine::truncate(m, 400));
        }
        return 2;
    }
    0
}

fn write_replay(vd: &str, id: &str, sub: &str, case: &J, msg: &str) -> String {
    let body = json!({"property": id, "sub": sub, "message": msg, "case": case});
    let h = vcore::jser::hash64(&format!("{sub}{case}"));
    let p = format!("{vd}/replays/{id}-{sub}-{:016x}.json", h);
    std::fs::write(&p, serde_json::to_string_pretty(&body).unwrap()).ok();
    p
}


// ---------------------------------------------------------------------------------
// libFuzzer campaigns (thorough tier). The targets live in /verif/fuzz and carry the same
// oracles as the proptest sub-checks; an artifact is re-judged through the sub-check's
// replay function before it is reported.

fn fuzz_target_of(id: &str) -> Option<(&'static str, &'static str, u32)> {
    // (target binary, sub-check used to re-judge an artifact, max_len)
    match id {
        "C02" => Some(("c02_text", "soup", 512)),
        "C08" => Some(("c08_eval", "eval", 256)),
        "C09" => Some(("c09_path", "raw", 256)),
        "C10" => Some(("c10_bytes", "raw", 256)),
        "C16" => Some(("c16_keypath", "raw", 128)),
        _ => None,
    }
}

fn artifact_case(id: &str, bytes: &[u8]) -> Option<J> {
    use vcore::jser::Jser;
    if id == "C08" {
        vcore::props::c08::case_from_bytes(bytes).map(|c| c.to_j())
    } else {
        Some(vcore::jser::Bytes(bytes.to_vec()).to_j())
    }
}

#[allow(clippy::type_complexity)]
fn run_fuzz(
    prop: &props::Prop,
    id: &str,
    target: (&'static str, &'static str, u32),
    seed: u64,
    n: usize,
    work: &str,
    vd: &str,
) -> Result<(J, Vec<(String, String)>, Vec<String>), String> {
    let (bin, subn, max_len) = target;
    let exe = format!("{vd}/target-fuzz/x86_64-unknown-linux-gnu/release/{bin}");
    if !std::path::Path::new(&exe).exists() {
        return Err(format!("fuzz target {exe} is not built (the thorough wrapper builds it with cargo +nightly fuzz build)"));
    }
    let secs: u64 = std::env::var("VERIF_FUZZ_SECS").ok().and_then(|s| s.parse().ok()).unwrap_or(120);
    let seeds_dir = format!("{vd}/fuzz/seeds/{bin}");
    let t0 = Instant::now();
    let mut kids = vec![];
    for i in 0..n {
        let corpus = format!("{work}/fuzz-corpus-{i}");
        let arts = format!("{work}/fuzz-artifacts-{i}/");
        std::fs::create_dir_all(&corpus).ok();
        std::fs::create_dir_all(&arts).ok();
        let mut cmd = Command::new(&exe);
        cmd.arg(&corpus);
        if std::path::Path::new(&seeds_dir).exists() {
            cmd.arg(&seeds_dir);
        }
        cmd.args([
            format!("-seed={}", (seed.wrapping_mul(1000) + i as u64 + 1) & 0x7fff_ffff),
            format!("-max_total_time={secs}"),
            format!("-max_len={max_len}"),
            "-len_control=0".to_string(),
            "-print_final_stats=1".to_string(),
            "-rss_limit_mb=0".to_string(),
            "-malloc_limit_mb=0".to_string(),
            "-timeout=20".to_string(),
            format!("-artifact_prefix={arts}"),
        ]);
        let log = std::fs::File::create(format!("{work}/fuzz-{i}.log")).map_err(|e| e.to_string())?;
        let child = cmd.stdin(Stdio::null()).stdout(Stdio::null()).stderr(log).spawn().map_err(|e| format!("spawn {exe}: {e}"))?;
        kids.push(child);
    }
    for k in kids.iter_mut() {
        let _ = k.wait();
    }
    let mut execs = 0u64;
    let mut corpus_files = 0u64;
    let mut violations = vec![];
    let mut inconclusive = vec![];
    let sub = prop.subs.iter().find(|s| s.name == subn).ok_or("no such sub-check")?;
    let mut seen = HashSet::new();
    for i in 0..n {
        if let Ok(t) = std::fs::read_to_string(format!("{work}/fuzz-{i}.log")) {
            for l in t.lines() {
                if let Some(v) = l.strip_prefix("stat::number_of_executed_units:") {
                    execs += v.trim().parse::<u64>().unwrap_or(0);
                }
            }
        }
        corpus_files += std::fs::read_dir(format!("{work}/fuzz-corpus-{i}")).map(|d| d.count() as u64).unwrap_or(0);
        if let Ok(rd) = std::fs::read_dir(format!("{work}/fuzz-artifacts-{i}")) {
            for e in rd.filter_map(|e| e.ok()) {
                let name = e.file_name().to_string_lossy().to_string();
                let bytes = std::fs::read(e.path()).unwrap_or_default();
                if name.starts_with("timeout-") || name.starts_with("oom-") || name.starts_with("slow-unit-") {
                    inconclusive.push(format!("fuzz target {bin} reported {name} ({} bytes); not a violation", bytes.len()));
                    continue;
                }
                let case = match artifact_case(id, &bytes) {
                    Some(c) => c,
                    None => continue,
                };
                known::set_strict(true);
                let r = (sub.replay)(&case);
                known::set_strict(false);
                match r {
                    Err(m) if m.starts_with("KNOWN:") => {}
                    Err(m) if m.contains("[harness-internal]") => inconclusive.push(format!("fuzz artifact {name}: {m}")),
                    Err(m) => {
                        let key: String = m.chars().take(24).collect();
                        if seen.insert(key) {
                            let p = write_replay(vd, id, subn, &case, &m);
                            violations.push((p, format!("(found by libFuzzer target {bin}) {m}")));
                        }
                    }
                    Ok(()) => inconclusive.push(format!("fuzz artifact {name} of {bin} does not reproduce through the replay path")),
                }
            }
        }
    }
    let stats = json!({
        "target": bin, "processes": n, "seconds_each": secs, "fuzz_execs": execs,
        "fuzz_corpus_files": corpus_files, "wall_s": t0.elapsed().as_secs_f64(),
        "oracle": format!("same as sub-check '{subn}' (linked from vcore)"),
    });
    Ok((stats, violations, inconclusive))
}


/// A worker died without writing its result. Its progress file names the sub-check and the
/// ordinal of the case it was about to run; the worker is re-run (same seed, hence the same
/// case sequence) with an order to dump that case, and the dumped case is then confirmed in
/// a fresh child through `vcheck replay`. A signal death there is the violation.
#[allow(clippy::too_many_arguments)]
fn trace_dead_worker(
    prop: &props::Prop,
    id: &str,
    tier: Tier,
    seed: u64,
    wi: usize,
    n: usize,
    work: &str,
    vd: &str,
) -> Result<Option<(String, String)>, String> {
    let out = format!("{work}/worker-{wi}.json");
    let prog = std::fs::read_to_string(format!("{out}.progress")).map_err(|e| format!("no progress file: {e}"))?;
    let mut it = prog.split_whitespace();
    let (subn, k) = match (it.next(), it.next().and_then(|x| x.parse::<u64>().ok())) {
        (Some(s), Some(k)) => (s.to_string(), k),
        _ => return Err("progress file is empty (death outside a generated sub-check)".into()),
    };
    if !prop.subs.iter().any(|s| s.name == subn) {
        return Err(format!("progress names unknown sub-check {subn}"));
    }
    let exe = std::env::current_exe().map_err(|e| e.to_string())?;
    let _ = std::fs::remove_file(format!("{out}.inflight"));
    let _ = Command::new(&exe)
        .args(["--worker", id, tier.name(), &seed.to_string(), &wi.to_string(), &n.to_string(), &out])
        .env("VERIF_TRACE_AT", format!("{subn}:{k}"))
        .env("VERIF_ONLY_SUB", &subn)
        .stdin(Stdio::null())
        .stdout(Stdio::null())
        .stderr(Stdio::null())
        .status();
    let txt = std::fs::read_to_string(format!("{out}.inflight")).map_err(|_| "the re-run did not reach the case".to_string())?;
    let j: J = vcore::jser::parse_json(txt.as_bytes())?;
    let case = j["case"].clone();
    let msg0 = format!("the checking process is killed while running this case (sub-check {subn}, case #{k} of worker {wi})");
    let p = write_replay(vd, id, &subn, &case, &msg0);
    // confirm in a fresh child
    let st = Command::new(&exe).args(["replay", &p]).stdin(Stdio::null()).stdout(Stdio::null()).stderr(Stdio::null()).status().map_err(|e| e.to_string())?;
    match st.code() {
        Some(1) => Ok(Some((p, format!("{msg0}; replaying it alone fails too (a crash or a check failure, see `./vcheck replay`)")))),
        _ => Ok(None),
    }
}
