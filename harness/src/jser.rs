//! Self-describing serialisation of generated cases (replay files, evidence samples).
//! Model trees use a JSON superset that keeps number representation and NaN/inf:
//! {"$i":"-5"} {"$u":"5"} {"$f":"<16 hex digits of the bit pattern>","~":"1.5"}
//! {"$o":{key:value,...}}; arrays, strings, booleans and null are themselves.
//! Byte strings are {"$hex":"..."}.

use crate::model::{hex, unhex, M, N};
use serde_json::{json, Map, Value as J};
use std::collections::BTreeMap;

pub trait Jser: Sized {
    fn to_j(&self) -> J;
    fn from_j(j: &J) -> Result<Self, String>;
}

impl Jser for N {
    fn to_j(&self) -> J {
        match self {
            N::I(v) => json!({"$i": v.to_string()}),
            N::U(v) => json!({"$u": v.to_string()}),
            N::F(v) => json!({"$f": format!("{:016x}", v.to_bits()), "~": format!("{v:?}")}),
        }
    }
    fn from_j(j: &J) -> Result<Self, String> {
        let o = j.as_object().ok_or("number: not an object")?;
        if let Some(s) = o.get("$i").and_then(|x| x.as_str()) {
            return s.parse().map(N::I).map_err(|e| format!("{e}"));
        }
        if let Some(s) = o.get("$u").and_then(|x| x.as_str()) {
            return s.parse().map(N::U).map_err(|e| format!("{e}"));
        }
        if let Some(s) = o.get("$f").and_then(|x| x.as_str()) {
            return u64::from_str_radix(s, 16).map(|b| N::F(f64::from_bits(b))).map_err(|e| format!("{e}"));
        }
        Err("number: no tag".into())
    }
}

impl Jser for M {
    fn to_j(&self) -> J {
        match self {
            M::Null => J::Null,
            M::Bool(b) => J::Bool(*b),
            M::Num(n) => n.to_j(),
            M::Str(s) => J::String(s.clone()),
            M::Arr(a) => J::Array(a.iter().map(|x| x.to_j()).collect()),
            M::Obj(o) => {
                let mut m = Map::new();
                for (k, v) in o {
                    m.insert(k.clone(), v.to_j());
                }
                json!({"$o": J::Object(m)})
            }
        }
    }
    fn from_j(j: &J) -> Result<Self, String> {
        Ok(match j {
            J::Null => M::Null,
            J::Bool(b) => M::Bool(*b),
            J::String(s) => M::Str(s.clone()),
            J::Array(a) => M::Arr(a.iter().map(M::from_j).collect::<Result<_, _>>()?),
            J::Object(o) => {
                if let Some(inner) = o.get("$o") {
                    let io = inner.as_object().ok_or("$o not an object")?;
                    let mut m = BTreeMap::new();
                    for (k, v) in io {
                        m.insert(k.clone(), M::from_j(v)?);
                    }
                    M::Obj(m)
                } else {
                    M::Num(N::from_j(j)?)
                }
            }
            J::Number(_) => return Err("bare JSON number in model tree".into()),
        })
    }
}

/// byte string wrapper
#[derive(Clone, Debug, PartialEq, Eq)]
pub struct Bytes(pub Vec<u8>);
impl Jser for Bytes {
    fn to_j(&self) -> J {
        let mut o = Map::new();
        o.insert("$hex".into(), J::String(hex(&self.0)));
        if let Ok(s) = std::str::from_utf8(&self.0) {
            if s.chars().all(|c| !c.is_control()) {
                o.insert("~".into(), J::String(s.to_string()));
            }
        }
        J::Object(o)
    }
    fn from_j(j: &J) -> Result<Self, String> {
        let s = j.get("$hex").and_then(|x| x.as_str()).ok_or("bytes: no $hex")?;
        Ok(Bytes(unhex(s)?))
    }
}

impl Jser for String {
    fn to_j(&self) -> J {
        J::String(self.clone())
    }
    fn from_j(j: &J) -> Result<Self, String> {
        j.as_str().map(|s| s.to_string()).ok_or_else(|| "expected string".into())
    }
}
impl Jser for bool {
    fn to_j(&self) -> J {
        J::Bool(*self)
    }
    fn from_j(j: &J) -> Result<Self, String> {
        j.as_bool().ok_or_else(|| "expected bool".into())
    }
}
macro_rules! jser_int {
    ($($t:ty)*) => {$(
        impl Jser for $t {
            fn to_j(&self) -> J { J::String(self.to_string()) }
            fn from_j(j: &J) -> Result<Self, String> {
                j.as_str().ok_or("expected integer string".to_string())?.parse().map_err(|e| format!("{e}"))
            }
        }
    )*};
}
jser_int!(u8 u16 u32 u64 usize i8 i16 i32 i64 isize i128);

impl Jser for f64 {
    fn to_j(&self) -> J {
        N::F(*self).to_j()
    }
    fn from_j(j: &J) -> Result<Self, String> {
        match N::from_j(j)? {
            N::F(f) => Ok(f),
            _ => Err("expected float".into()),
        }
    }
}

impl<T: Jser> Jser for Vec<T> {
    fn to_j(&self) -> J {
        J::Array(self.iter().map(|x| x.to_j()).collect())
    }
    fn from_j(j: &J) -> Result<Self, String> {
        j.as_array().ok_or("expected array")?.iter().map(T::from_j).collect()
    }
}
impl<T: Jser> Jser for Option<T> {
    fn to_j(&self) -> J {
        match self {
            None => json!({"$none": true}),
            Some(x) => json!({"$some": x.to_j()}),
        }
    }
    fn from_j(j: &J) -> Result<Self, String> {
        if j.get("$none").is_some() {
            return Ok(None);
        }
        Ok(Some(T::from_j(j.get("$some").ok_or("expected option")?)?))
    }
}
macro_rules! jser_tuple {
    ($($n:tt $t:ident),+) => {
        impl<$($t: Jser),+> Jser for ($($t,)+) {
            fn to_j(&self) -> J { J::Array(vec![$(self.$n.to_j()),+]) }
            fn from_j(j: &J) -> Result<Self, String> {
                let a = j.as_array().ok_or("expected tuple array")?;
                Ok(($($t::from_j(a.get($n).ok_or("tuple too short")?)?,)+))
            }
        }
    };
}
jser_tuple!(0 A);
jser_tuple!(0 A, 1 B);
jser_tuple!(0 A, 1 B, 2 C);
jser_tuple!(0 A, 1 B, 2 C, 3 D);
jser_tuple!(0 A, 1 B, 2 C, 3 D, 4 E);
jser_tuple!(0 A, 1 B, 2 C, 3 D, 4 E, 5 F);
jser_tuple!(0 A, 1 B, 2 C, 3 D, 4 E, 5 F, 6 G);
jser_tuple!(0 A, 1 B, 2 C, 3 D, 4 E, 5 F, 6 G, 7 H);

/// struct with named fields, every field `Jser`
#[macro_export]
macro_rules! jser_struct {
    ($(#[$m:meta])* pub struct $name:ident { $(pub $f:ident : $t:ty),* $(,)? }) => {
        $(#[$m])*
        #[derive(Clone, Debug)]
        pub struct $name { $(pub $f: $t),* }
        impl $crate::jser::Jser for $name {
            fn to_j(&self) -> serde_json::Value {
                let mut m = serde_json::Map::new();
                $( m.insert(stringify!($f).to_string(), $crate::jser::Jser::to_j(&self.$f)); )*
                serde_json::Value::Object(m)
            }
            fn from_j(j: &serde_json::Value) -> Result<Self, String> {
                Ok($name { $( $f: <$t as $crate::jser::Jser>::from_j(
                    j.get(stringify!($f)).ok_or(concat!("missing field ", stringify!($f)))?)
                    .map_err(|e| format!("{}: {}", stringify!($f), e))? ),* })
            }
        }
    };
}

/// FNV-1a 64 over the canonical serialisation: the identity used for counting
/// distinct non-trivial cases
pub fn hash64(s: &str) -> u64 {
    let mut h: u64 = 0xcbf29ce484222325;
    for b in s.as_bytes() {
        h ^= *b as u64;
        h = h.wrapping_mul(0x100000001b3);
    }
    h
}
pub fn hash_bytes(s: &[u8]) -> u64 {
    let mut h: u64 = 0xcbf29ce484222325;
    for b in s {
        h ^= *b as u64;
        h = h.wrapping_mul(0x100000001b3);
    }
    h
}


/// parse our own files (worker results, replay files) without serde_json's nesting limit:
/// model trees of depth 100 nest deeper than its default 128
pub fn parse_json(bytes: &[u8]) -> Result<J, String> {
    let mut de = serde_json::Deserializer::from_slice(bytes);
    de.disable_recursion_limit();
    let v = <J as serde::Deserialize>::deserialize(&mut de).map_err(|e| e.to_string())?;
    de.end().map_err(|e| e.to_string())?;
    Ok(v)
}
