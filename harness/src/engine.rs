//! Worker-side engine: drives one sub-check with proptest from a fixed seed, counts
//! what was generated, shrinks a failure and hands back a serialisable case.

use crate::jser::{hash64, Jser};
use proptest::strategy::Strategy;
use proptest::test_runner::{Config, RngSeed, TestCaseError, TestError, TestRunner};
use serde_json::{json, Value as J};
use std::cell::RefCell;
use std::collections::{BTreeMap, HashSet};
use std::panic::{catch_unwind, AssertUnwindSafe};

#[derive(Clone, Copy, PartialEq, Eq, Debug)]
pub enum Tier {
    Quick,
    Thorough,
}
impl Tier {
    pub fn name(&self) -> &'static str {
        match self {
            Tier::Quick => "quick",
            Tier::Thorough => "thorough",
        }
    }
    pub fn pick<T>(&self, q: T, t: T) -> T {
        match self {
            Tier::Quick => q,
            Tier::Thorough => t,
        }
    }
}

#[derive(Clone, Debug)]
pub struct Failure {
    pub sub: String,
    pub case: J,
    pub message: String,
    /// true when the failure is a panic raised inside the harness itself (a bug in
    /// the checker, reported as exit 2, never as a violation)
    pub internal: bool,
}

/// Observations a check makes about one case.
#[derive(Default)]
pub struct Obs {
    pub nontrivial: bool,
    pub labels: Vec<&'static str>,
    pub excluded: Vec<&'static str>,
    /// overrides the identity used for distinct counting (default: the whole case)
    pub ident: Option<String>,
}
impl Obs {
    pub fn nt(&mut self) {
        self.nontrivial = true;
    }
    pub fn nt_if(&mut self, c: bool) {
        if c {
            self.nontrivial = true;
        }
    }
    pub fn label(&mut self, l: &'static str) {
        self.labels.push(l);
    }
    pub fn label_if(&mut self, c: bool, l: &'static str) {
        if c {
            self.labels.push(l);
        }
    }
    pub fn excluded(&mut self, l: &'static str) {
        self.excluded.push(l);
    }
}

pub struct Ctx {
    pub tier: Tier,
    pub seed: u64,
    pub worker: usize,
    pub nworkers: usize,
    pub evals: u64,
    pub nt_hashes: HashSet<u64>,
    /// non-trivial cases that are distinct by construction (enumerations)
    pub nt_enumerated: u64,
    pub samples: Vec<J>,
    pub biggest: Option<(usize, J)>,
    pub labels: BTreeMap<String, u64>,
    pub excluded: BTreeMap<String, u64>,
    pub extra: BTreeMap<String, J>,
    pub failure: Option<Failure>,
    /// progress file: "<sub> <k>" of the case about to run (cheap pwrite per case), so that
    /// a worker killed by a signal can be re-run up to that case and the case reported
    pub progress: Option<std::fs::File>,
    /// re-run mode: dump the k-th case of sub-check `sub` to `<out>.inflight` before running it
    pub trace_at: Option<(String, u64)>,
    pub out_path: String,
}

impl Ctx {
    pub fn new(tier: Tier, seed: u64, worker: usize, nworkers: usize) -> Ctx {
        Ctx {
            tier,
            seed,
            worker,
            nworkers,
            evals: 0,
            nt_hashes: HashSet::new(),
            nt_enumerated: 0,
            samples: vec![],
            biggest: None,
            labels: BTreeMap::new(),
            excluded: BTreeMap::new(),
            extra: BTreeMap::new(),
            failure: None,
            progress: None,
            trace_at: None,
            out_path: String::new(),
        }
    }
    /// this worker's share of `total` cases
    pub fn share(&self, total: u64) -> u64 {
        let base = total / self.nworkers as u64;
        let rem = total % self.nworkers as u64;
        base + if (self.worker as u64) < rem { 1 } else { 0 }
    }
    pub fn sub_seed(&self, prop: &str, sub: &str) -> u64 {
        let mut x = self.seed ^ hash64(prop).rotate_left(17) ^ hash64(sub).rotate_left(41);
        x = x.wrapping_add((self.worker as u64 + 1).wrapping_mul(0x9E3779B97F4A7C15));
        // splitmix64
        x = (x ^ (x >> 30)).wrapping_mul(0xBF58476D1CE4E5B9);
        x = (x ^ (x >> 27)).wrapping_mul(0x94D049BB133111EB);
        x ^ (x >> 31)
    }
    pub fn bump(&mut self, label: &str, by: u64) {
        *self.labels.entry(label.to_string()).or_insert(0) += by;
    }
    pub fn record(&mut self, case_j: impl FnOnce() -> J, obs: &Obs) {
        self.evals += 1;
        for l in &obs.labels {
            *self.labels.entry(l.to_string()).or_insert(0) += 1;
        }
        for l in &obs.excluded {
            *self.excluded.entry(l.to_string()).or_insert(0) += 1;
        }
        if obs.nontrivial {
            let j = case_j();
            let s = match &obs.ident {
                Some(i) => i.clone(),
                None => j.to_string(),
            };
            if self.nt_hashes.insert(hash64(&s)) {
                if self.samples.len() < 3 && s.len() < 1500 {
                    self.samples.push(j.clone());
                }
                let sz = s.len();
                if sz < 6000 && self.biggest.as_ref().map(|(b, _)| sz > *b).unwrap_or(true) {
                    self.biggest = Some((sz, j));
                }
            }
        }
    }
    /// for enumerations: n evaluations, k of them non-trivial, all distinct
    pub fn record_enumerated(&mut self, evals: u64, nontrivial: u64) {
        self.evals += evals;
        self.nt_enumerated += nontrivial;
    }
    pub fn fail(&mut self, sub: &str, case: J, message: String) {
        if self.failure.is_none() {
            let internal = message.contains("[harness-internal]");
            self.failure = Some(Failure { sub: sub.to_string(), case, message, internal });
        }
    }
}

// ---- panic capture --------------------------------------------------------

thread_local! {
    static LAST_PANIC: RefCell<Option<(String, String)>> = const { RefCell::new(None) };
}

pub fn install_panic_hook() {
    std::panic::set_hook(Box::new(|info| {
        let loc = info.location().map(|l| format!("{}:{}", l.file(), l.line())).unwrap_or_default();
        let msg = if let Some(s) = info.payload().downcast_ref::<&str>() {
            s.to_string()
        } else if let Some(s) = info.payload().downcast_ref::<String>() {
            s.clone()
        } else {
            "<non-string panic>".to_string()
        };
        LAST_PANIC.with(|p| *p.borrow_mut() = Some((loc, msg)));
    }));
}

#[derive(Clone, Debug)]
pub struct PanicInfo {
    pub site: String,
    pub msg: String,
}
impl PanicInfo {
    /// a panic raised by the code under test or one of its dependencies, as opposed
    /// to one raised by the harness's own sources
    pub fn in_library(&self) -> bool {
        self.site.contains("/repo/")
            || self.site.contains(".cargo/registry")
            || self.site.contains("/rustc/")
            || self.site.contains("/library/")
            || !self.site.starts_with("src/")
    }
    pub fn describe(&self) -> String {
        format!("panic at {}: {}", self.site, truncate(&self.msg, 200))
    }
}

pub fn truncate(s: &str, n: usize) -> String {
    if s.len() <= n {
        s.to_string()
    } else {
        let mut e = n;
        while !s.is_char_boundary(e) {
            e -= 1;
        }
        format!("{}…", &s[..e])
    }
}

/// run a library call, turning a panic into a value
pub fn guard<T>(f: impl FnOnce() -> T) -> Result<T, PanicInfo> {
    match catch_unwind(AssertUnwindSafe(f)) {
        Ok(v) => Ok(v),
        Err(_) => {
            let (site, msg) = LAST_PANIC.with(|p| p.borrow_mut().take()).unwrap_or_default();
            Err(PanicInfo { site, msg })
        }
    }
}

/// like `guard` but a panic is a check failure with a uniform message
pub fn nopanic<T>(what: &str, f: impl FnOnce() -> T) -> Result<T, String> {
    guard(f).map_err(|p| format!("{what}: {}", p.describe()))
}

// ---- proptest driver ---------------------------------------------------------

pub fn proptest_config(cases: u64, seed: u64) -> Config {
    let mut cfg = Config::default();
    cfg.cases = cases.min(u32::MAX as u64) as u32;
    cfg.failure_persistence = None;
    cfg.rng_seed = RngSeed::Fixed(seed);
    cfg.max_shrink_iters = 20_000;
    cfg.max_shrink_time = 0;
    cfg.max_local_rejects = 1 << 20;
    cfg.max_global_rejects = 1 << 24;
    cfg.verbose = 0;
    cfg.source_file = None;
    cfg.test_name = None;
    cfg
}

/// Runs `check` over `cases` generated values. The first failure is shrunk by
/// proptest and stored in `ctx.failure`; counting stops at the first failure (the
/// closure is re-run during shrinking).
pub fn run_strategy<S, F>(ctx: &mut Ctx, prop: &str, sub: &str, cases: u64, strat: S, check: F)
where
    S: Strategy,
    S::Value: Jser + Clone + std::fmt::Debug,
    F: Fn(&S::Value, &mut Obs) -> Result<(), String>,
{
    if ctx.failure.is_some() || cases == 0 {
        return;
    }
    let seed = ctx.sub_seed(prop, sub);
    let mut runner = TestRunner::new(proptest_config(cases, seed));
    let failed = RefCell::new(false);
    let counter = std::cell::Cell::new(0u64);
    let progress = ctx.progress.as_ref().and_then(|f| f.try_clone().ok());
    let trace_at = match &ctx.trace_at {
        Some((s, k)) if s == sub => Some(*k),
        _ => None,
    };
    let inflight_path = format!("{}.inflight", ctx.out_path);
    let cell = RefCell::new(&mut *ctx);
    let res = runner.run(&strat, |case| {
        let k = counter.get() + 1;
        counter.set(k);
        if let Some(f) = &progress {
            use std::os::unix::fs::FileExt;
            let line = format!("{sub} {k}                    \n");
            let _ = f.write_at(line.as_bytes(), 0);
        }
        if trace_at == Some(k) {
            let body = json!({"sub": sub, "k": k, "case": case.to_j()});
            let _ = std::fs::write(&inflight_path, body.to_string());
        }
        let mut obs = Obs::default();
        let r = match guard(|| check(&case, &mut obs)) {
            Ok(r) => r,
            Err(p) => {
                if p.in_library() {
                    Err(format!("unexpected {}", p.describe()))
                } else {
                    Err(format!("[harness-internal] {}", p.describe()))
                }
            }
        };
        match r {
            Ok(()) => {
                if !*failed.borrow() {
                    cell.borrow_mut().record(|| case.to_j(), &obs);
                }
                Ok(())
            }
            Err(m) => {
                if !*failed.borrow() {
                    *failed.borrow_mut() = true;
                    cell.borrow_mut().evals += 1;
                }
                Err(TestCaseError::fail(m))
            }
        }
    });
    drop(cell);
    match res {
        Ok(()) => {}
        Err(TestError::Fail(reason, value)) => {
            ctx.fail(sub, value.to_j(), reason.message().to_string());
        }
        Err(TestError::Abort(reason)) => {
            ctx.fail(
                sub,
                json!(null),
                format!("[harness-internal] proptest aborted: {}", reason.message()),
            );
        }
    }
}

/// monotone index choice: shrinking `i` towards 0 shrinks the choice towards 0
pub fn pick(i: u16, len: usize) -> usize {
    if len == 0 {
        0
    } else {
        ((i as usize) * len) >> 16
    }
}
