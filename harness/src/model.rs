//! Reference model of a JSON document as the jsonb crate stores it, written from
//! README.md (layout), tests/it/encode.rs (number tag bytes) and the property
//! statements. Nothing here calls into the jsonb crate except the two conversion
//! helpers at the bottom (`to_value` / `from_value`), which only build or read the
//! public `jsonb::Value` tree.

use std::borrow::Cow;
use std::collections::BTreeMap;

/// Number with its stored representation. Representation is part of the model
/// because byte-level functions copy number payloads verbatim.
#[derive(Clone, Copy, Debug)]
pub enum N {
    I(i64),
    U(u64),
    F(f64),
}

#[derive(Clone, Debug)]
pub enum M {
    Null,
    Bool(bool),
    Num(N),
    Str(String),
    Arr(Vec<M>),
    Obj(BTreeMap<String, M>),
}

impl N {
    pub fn is_zero(&self) -> bool {
        match self {
            N::I(v) => *v == 0,
            N::U(v) => *v == 0,
            N::F(f) => *f == 0.0,
        }
    }
    /// The one representation change the format itself makes: a signed zero integer
    /// is stored as the one-byte zero form, which reads back unsigned.
    pub fn norm(self) -> N {
        match self {
            N::I(0) => N::U(0),
            n => n,
        }
    }
    pub fn ident_eq(&self, o: &N) -> bool {
        match (self.norm(), o.norm()) {
            (N::I(a), N::I(b)) => a == b,
            (N::U(a), N::U(b)) => a == b,
            (N::F(a), N::F(b)) => a.to_bits() == b.to_bits() || (a.is_nan() && b.is_nan()),
            _ => false,
        }
    }
    pub fn is_finite(&self) -> bool {
        match self {
            N::F(f) => f.is_finite(),
            _ => true,
        }
    }
    pub fn is_float(&self) -> bool {
        matches!(self, N::F(_))
    }
    /// shortest form per README: 1, 2, 3, 5 or 9 bytes
    pub fn enc(&self, out: &mut Vec<u8>) {
        match *self {
            N::I(0) | N::U(0) => out.push(0x00),
            N::I(v) => {
                out.push(0x40);
                if v >= i8::MIN as i64 && v <= i8::MAX as i64 {
                    out.extend_from_slice(&(v as i8).to_be_bytes());
                } else if v >= i16::MIN as i64 && v <= i16::MAX as i64 {
                    out.extend_from_slice(&(v as i16).to_be_bytes());
                } else if v >= i32::MIN as i64 && v <= i32::MAX as i64 {
                    out.extend_from_slice(&(v as i32).to_be_bytes());
                } else {
                    out.extend_from_slice(&v.to_be_bytes());
                }
            }
            N::U(v) => {
                out.push(0x50);
                if v <= u8::MAX as u64 {
                    out.push(v as u8);
                } else if v <= u16::MAX as u64 {
                    out.extend_from_slice(&(v as u16).to_be_bytes());
                } else if v <= u32::MAX as u64 {
                    out.extend_from_slice(&(v as u32).to_be_bytes());
                } else {
                    out.extend_from_slice(&v.to_be_bytes());
                }
            }
            N::F(f) => {
                if f.is_nan() {
                    out.push(0x10);
                } else if f == f64::INFINITY {
                    out.push(0x20);
                } else if f == f64::NEG_INFINITY {
                    out.push(0x30);
                } else {
                    out.push(0x60);
                    out.extend_from_slice(&f.to_be_bytes());
                }
            }
        }
    }
    pub fn enc_vec(&self) -> Vec<u8> {
        let mut v = Vec::new();
        self.enc(&mut v);
        v
    }
    /// strict decode: only shortest forms are accepted
    pub fn dec_strict(b: &[u8]) -> Result<N, String> {
        if b.is_empty() {
            return Err("empty number".into());
        }
        let n = match (b[0], b.len()) {
            (0x00, 1) => N::U(0),
            (0x10, 1) => N::F(f64::NAN),
            (0x20, 1) => N::F(f64::INFINITY),
            (0x30, 1) => N::F(f64::NEG_INFINITY),
            (0x40, 2) => N::I(i8::from_be_bytes([b[1]]) as i64),
            (0x40, 3) => N::I(i16::from_be_bytes([b[1], b[2]]) as i64),
            (0x40, 5) => N::I(i32::from_be_bytes([b[1], b[2], b[3], b[4]]) as i64),
            (0x40, 9) => N::I(i64::from_be_bytes(b[1..9].try_into().unwrap())),
            (0x50, 2) => N::U(b[1] as u64),
            (0x50, 3) => N::U(u16::from_be_bytes([b[1], b[2]]) as u64),
            (0x50, 5) => N::U(u32::from_be_bytes([b[1], b[2], b[3], b[4]]) as u64),
            (0x50, 9) => N::U(u64::from_be_bytes(b[1..9].try_into().unwrap())),
            (0x60, 9) => N::F(f64::from_be_bytes(b[1..9].try_into().unwrap())),
            (t, l) => return Err(format!("bad number tag {t:#x} len {l}")),
        };
        if n.enc_vec() != b {
            return Err(format!("number not in shortest form: {b:02x?}"));
        }
        Ok(n)
    }
    pub fn to_lib(&self) -> jsonb::Number {
        match *self {
            N::I(v) => jsonb::Number::Int64(v),
            N::U(v) => jsonb::Number::UInt64(v),
            N::F(v) => jsonb::Number::Float64(v),
        }
    }
    pub fn from_lib(n: &jsonb::Number) -> N {
        match n {
            jsonb::Number::Int64(v) => N::I(*v),
            jsonb::Number::UInt64(v) => N::U(*v),
            jsonb::Number::Float64(v) => N::F(*v),
        }
    }
}

pub const ARR: u32 = 0x8000_0000;
pub const OBJ: u32 = 0x4000_0000;
pub const SCA: u32 = 0x2000_0000;
pub const J_NULL: u32 = 0x0000_0000;
pub const J_STR: u32 = 0x1000_0000;
pub const J_NUM: u32 = 0x2000_0000;
pub const J_FALSE: u32 = 0x3000_0000;
pub const J_TRUE: u32 = 0x4000_0000;
pub const J_CONT: u32 = 0x5000_0000;

impl M {
    pub fn is_container(&self) -> bool {
        matches!(self, M::Arr(_) | M::Obj(_))
    }
    pub fn is_scalar(&self) -> bool {
        !self.is_container()
    }
    pub fn kind(&self) -> &'static str {
        match self {
            M::Null => "null",
            M::Bool(_) => "boolean",
            M::Num(_) => "number",
            M::Str(_) => "string",
            M::Arr(_) => "array",
            M::Obj(_) => "object",
        }
    }
    pub fn depth(&self) -> usize {
        match self {
            M::Arr(a) => 1 + a.iter().map(|x| x.depth()).max().unwrap_or(0),
            M::Obj(o) => 1 + o.values().map(|x| x.depth()).max().unwrap_or(0),
            _ => 0,
        }
    }
    pub fn size(&self) -> usize {
        match self {
            M::Arr(a) => 1 + a.iter().map(|x| x.size()).sum::<usize>(),
            M::Obj(o) => 1 + o.values().map(|x| x.size()).sum::<usize>(),
            _ => 1,
        }
    }
    pub fn all_finite(&self) -> bool {
        match self {
            M::Num(n) => n.is_finite(),
            M::Arr(a) => a.iter().all(|x| x.all_finite()),
            M::Obj(o) => o.values().all(|x| x.all_finite()),
            _ => true,
        }
    }
    pub fn any<F: Fn(&M) -> bool + Copy>(&self, f: F) -> bool {
        if f(self) {
            return true;
        }
        match self {
            M::Arr(a) => a.iter().any(|x| x.any(f)),
            M::Obj(o) => o.values().any(|x| x.any(f)),
            _ => false,
        }
    }
    pub fn any_key<F: Fn(&str) -> bool + Copy>(&self, f: F) -> bool {
        match self {
            M::Arr(a) => a.iter().any(|x| x.any_key(f)),
            M::Obj(o) => o.iter().any(|(k, v)| f(k) || v.any_key(f)),
            _ => false,
        }
    }
    /// Int64(0) -> UInt64(0) everywhere
    pub fn norm(&self) -> M {
        match self {
            M::Num(n) => M::Num(n.norm()),
            M::Arr(a) => M::Arr(a.iter().map(|x| x.norm()).collect()),
            M::Obj(o) => M::Obj(o.iter().map(|(k, v)| (k.clone(), v.norm())).collect()),
            x => x.clone(),
        }
    }
    /// non-negative Int64 -> UInt64 everywhere (what the text parser produces)
    pub fn unsigned_norm(&self) -> M {
        match self {
            M::Num(N::I(v)) if *v >= 0 => M::Num(N::U(*v as u64)),
            M::Arr(a) => M::Arr(a.iter().map(|x| x.unsigned_norm()).collect()),
            M::Obj(o) => M::Obj(o.iter().map(|(k, v)| (k.clone(), v.unsigned_norm())).collect()),
            x => x.clone(),
        }
    }
    /// identity: same shape, strings, key sets, numbers in the same representation
    /// (after `norm`) with the same value, floats bit for bit, NaN = NaN
    pub fn ident_eq(&self, o: &M) -> bool {
        match (self, o) {
            (M::Null, M::Null) => true,
            (M::Bool(a), M::Bool(b)) => a == b,
            (M::Num(a), M::Num(b)) => a.ident_eq(b),
            (M::Str(a), M::Str(b)) => a == b,
            (M::Arr(a), M::Arr(b)) => a.len() == b.len() && a.iter().zip(b).all(|(x, y)| x.ident_eq(y)),
            (M::Obj(a), M::Obj(b)) => {
                a.len() == b.len()
                    && a.iter().zip(b).all(|((k1, v1), (k2, v2))| k1 == k2 && v1.ident_eq(v2))
            }
            _ => false,
        }
    }

    // ---- reference encoder ------------------------------------------------

    /// payload of `self` as an element of a container; returns the entry word
    fn enc_elem(&self, out: &mut Vec<u8>) -> u32 {
        match self {
            M::Null => J_NULL,
            M::Bool(true) => J_TRUE,
            M::Bool(false) => J_FALSE,
            M::Num(n) => {
                let s = out.len();
                n.enc(out);
                J_NUM | (out.len() - s) as u32
            }
            M::Str(s) => {
                out.extend_from_slice(s.as_bytes());
                J_STR | s.len() as u32
            }
            M::Arr(_) | M::Obj(_) => {
                let s = out.len();
                self.enc_container(out);
                J_CONT | (out.len() - s) as u32
            }
        }
    }
    fn enc_container(&self, out: &mut Vec<u8>) {
        match self {
            M::Arr(a) => {
                out.extend_from_slice(&(ARR | a.len() as u32).to_be_bytes());
                let je = out.len();
                out.resize(je + 4 * a.len(), 0);
                for (i, x) in a.iter().enumerate() {
                    let w = x.enc_elem(out);
                    out[je + 4 * i..je + 4 * i + 4].copy_from_slice(&w.to_be_bytes());
                }
            }
            M::Obj(o) => {
                out.extend_from_slice(&(OBJ | o.len() as u32).to_be_bytes());
                let je = out.len();
                out.resize(je + 8 * o.len(), 0);
                // BTreeMap<String,_> iterates in byte order of the UTF-8 keys
                for (i, k) in o.keys().enumerate() {
                    out.extend_from_slice(k.as_bytes());
                    let w = J_STR | k.len() as u32;
                    out[je + 4 * i..je + 4 * i + 4].copy_from_slice(&w.to_be_bytes());
                }
                let je2 = je + 4 * o.len();
                for (i, v) in o.values().enumerate() {
                    let w = v.enc_elem(out);
                    out[je2 + 4 * i..je2 + 4 * i + 4].copy_from_slice(&w.to_be_bytes());
                }
            }
            _ => unreachable!(),
        }
    }
    pub fn enc_into(&self, out: &mut Vec<u8>) {
        match self {
            M::Arr(_) | M::Obj(_) => self.enc_container(out),
            _ => {
                out.extend_from_slice(&SCA.to_be_bytes());
                let je = out.len();
                out.extend_from_slice(&[0; 4]);
                let w = self.enc_elem(out);
                out[je..je + 4].copy_from_slice(&w.to_be_bytes());
            }
        }
    }
    pub fn enc(&self) -> Vec<u8> {
        let mut v = Vec::new();
        self.enc_into(&mut v);
        v
    }
}

// ---- strict validator -------------------------------------------------------

fn rd32(b: &[u8], at: usize) -> Result<u32, String> {
    b.get(at..at + 4)
        .map(|s| u32::from_be_bytes(s.try_into().unwrap()))
        .ok_or_else(|| format!("short read at {at} (len {})", b.len()))
}

fn val_elem(b: &[u8], word: u32, at: usize) -> Result<(M, usize), String> {
    if word & 0x8000_0000 != 0 {
        return Err(format!("entry word {word:#x} has the offset flag"));
    }
    let ty = word & 0x7000_0000;
    let len = (word & 0x0FFF_FFFF) as usize;
    let pay = b.get(at..at + len).ok_or_else(|| format!("payload {at}+{len} past end {}", b.len()))?;
    let m = match ty {
        J_NULL | J_TRUE | J_FALSE => {
            if len != 0 {
                return Err(format!("null/bool entry with length {len}"));
            }
            match ty {
                J_NULL => M::Null,
                J_TRUE => M::Bool(true),
                _ => M::Bool(false),
            }
        }
        J_STR => M::Str(std::str::from_utf8(pay).map_err(|e| format!("bad utf8 in string: {e}"))?.to_string()),
        J_NUM => M::Num(N::dec_strict(pay)?),
        J_CONT => {
            let (m, used) = val_container(pay)?;
            if used != len {
                return Err(format!("container entry length {len} but container occupies {used}"));
            }
            m
        }
        t => return Err(format!("unknown entry type {t:#x}")),
    };
    Ok((m, len))
}

/// validates a container at the start of `b`; returns the model and bytes consumed
fn val_container(b: &[u8]) -> Result<(M, usize), String> {
    let h = rd32(b, 0)?;
    let n = (h & 0x1FFF_FFFF) as usize;
    match h & 0xE000_0000 {
        ARR => {
            if b.len() < 4 + 4 * n {
                return Err("array entries past end".into());
            }
            let mut at = 4 + 4 * n;
            let mut out = Vec::with_capacity(n.min(1 << 16));
            for i in 0..n {
                let w = rd32(b, 4 + 4 * i)?;
                let (m, l) = val_elem(b, w, at)?;
                at += l;
                out.push(m);
            }
            Ok((M::Arr(out), at))
        }
        OBJ => {
            if b.len() < 4 + 8 * n {
                return Err("object entries past end".into());
            }
            let mut at = 4 + 8 * n;
            let mut keys: Vec<String> = Vec::with_capacity(n.min(1 << 16));
            for i in 0..n {
                let w = rd32(b, 4 + 4 * i)?;
                if w & 0xF000_0000 != J_STR {
                    return Err(format!("key entry {w:#x} is not a string"));
                }
                let (m, l) = val_elem(b, w, at)?;
                at += l;
                let k = match m {
                    M::Str(s) => s,
                    _ => unreachable!(),
                };
                if let Some(p) = keys.last() {
                    if p.as_bytes() >= k.as_bytes() {
                        return Err(format!("keys not strictly increasing: {p:?} then {k:?}"));
                    }
                }
                keys.push(k);
            }
            let mut o = BTreeMap::new();
            for (i, k) in keys.into_iter().enumerate() {
                let w = rd32(b, 4 + 4 * n + 4 * i)?;
                let (m, l) = val_elem(b, w, at)?;
                at += l;
                o.insert(k, m);
            }
            Ok((M::Obj(o), at))
        }
        t => Err(format!("nested header type {t:#x} is not array/object")),
    }
}

/// Strict reference decoder: accepts exactly canonical JSONB documents.
pub fn validate(b: &[u8]) -> Result<M, String> {
    let h = rd32(b, 0)?;
    match h & 0xE000_0000 {
        SCA => {
            if h != SCA {
                return Err(format!("scalar header {h:#x} is not 0x20000000"));
            }
            let w = rd32(b, 4)?;
            if w & 0x7000_0000 == J_CONT {
                return Err("scalar header with a container entry".into());
            }
            let (m, l) = val_elem(b, w, 8)?;
            if 8 + l != b.len() {
                return Err(format!("{} trailing bytes after scalar", b.len() - 8 - l));
            }
            Ok(m)
        }
        ARR | OBJ => {
            let (m, used) = val_container(b)?;
            if used != b.len() {
                return Err(format!("{} trailing bytes after container", b.len() - used));
            }
            Ok(m)
        }
        t => Err(format!("bad header type {t:#x}")),
    }
}

/// canonical = the validator accepts and the reference encoder reproduces the bytes
pub fn check_canonical(b: &[u8]) -> Result<M, String> {
    let m = validate(b)?;
    let e = m.enc();
    if e != b {
        return Err(format!("validated but re-encoding differs: got {} want {}", hex(b), hex(&e)));
    }
    Ok(m)
}

pub fn hex(b: &[u8]) -> String {
    let mut s = String::with_capacity(b.len() * 2);
    for x in b {
        s.push_str(&format!("{x:02x}"));
    }
    s
}
pub fn unhex(s: &str) -> Result<Vec<u8>, String> {
    if s.len() % 2 != 0 {
        return Err("odd hex".into());
    }
    (0..s.len() / 2)
        .map(|i| u8::from_str_radix(&s[2 * i..2 * i + 2], 16).map_err(|e| e.to_string()))
        .collect()
}

// ---- conversions to and from the library's public tree ------------------------

pub fn to_value(m: &M) -> jsonb::Value<'static> {
    match m {
        M::Null => jsonb::Value::Null,
        M::Bool(b) => jsonb::Value::Bool(*b),
        M::Num(n) => jsonb::Value::Number(n.to_lib()),
        M::Str(s) => jsonb::Value::String(Cow::Owned(s.clone())),
        M::Arr(a) => jsonb::Value::Array(a.iter().map(to_value).collect()),
        M::Obj(o) => jsonb::Value::Object(o.iter().map(|(k, v)| (k.clone(), to_value(v))).collect()),
    }
}

pub fn from_value(v: &jsonb::Value) -> M {
    match v {
        jsonb::Value::Null => M::Null,
        jsonb::Value::Bool(b) => M::Bool(*b),
        jsonb::Value::Number(n) => M::Num(N::from_lib(n)),
        jsonb::Value::String(s) => M::Str(s.to_string()),
        jsonb::Value::Array(a) => M::Arr(a.iter().map(from_value).collect()),
        jsonb::Value::Object(o) => M::Obj(o.iter().map(|(k, v)| (k.clone(), from_value(v))).collect()),
    }
}

/// every string and key of a decoded library value, as raw bytes (to judge UTF-8
/// well-formedness without trusting the `str` type)
pub fn value_string_bytes<'a>(v: &'a jsonb::Value<'a>, out: &mut Vec<&'a [u8]>) {
    match v {
        jsonb::Value::String(s) => out.push(s.as_bytes()),
        jsonb::Value::Array(a) => a.iter().for_each(|x| value_string_bytes(x, out)),
        jsonb::Value::Object(o) => {
            for (k, x) in o {
                out.push(k.as_bytes());
                value_string_bytes(x, out);
            }
        }
        _ => {}
    }
}
