pub mod cmpmodel;
pub mod engine;
pub mod gen;
pub mod jser;
pub mod known;
pub mod model;
pub mod props;
pub mod treefn;
