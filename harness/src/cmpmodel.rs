//! Exact numeric comparison and the document order / containment models, written
//! from the property statements C04, C12, C18 (not from the library's code).

use crate::model::{M, N};
use std::cmp::Ordering;

/// exact comparison of an integer with a finite-or-not float
fn int_vs_float(v: i128, f: f64) -> Ordering {
    if f.is_nan() {
        return Ordering::Less; // NaN is greatest
    }
    if f == f64::INFINITY {
        return Ordering::Less;
    }
    if f == f64::NEG_INFINITY {
        return Ordering::Greater;
    }
    // |v| < 2^64, so any |f| >= 2^65 decides by sign
    if f >= 36893488147419103232.0 {
        return Ordering::Less;
    }
    if f <= -36893488147419103232.0 {
        return Ordering::Greater;
    }
    let t = f.trunc();
    let ti = t as i128; // exact: |t| < 2^65
    match v.cmp(&ti) {
        Ordering::Equal => {
            if f > t {
                Ordering::Less
            } else if f < t {
                Ordering::Greater
            } else {
                Ordering::Equal
            }
        }
        o => o,
    }
}

pub fn int_of(n: &N) -> Option<i128> {
    match n {
        N::I(v) => Some(*v as i128),
        N::U(v) => Some(*v as i128),
        N::F(_) => None,
    }
}

/// total order by mathematical value; NaN equal to itself and greatest; -0.0 = 0.0
pub fn num_cmp(a: &N, b: &N) -> Ordering {
    match (int_of(a), int_of(b)) {
        (Some(x), Some(y)) => x.cmp(&y),
        (Some(x), None) => match b {
            N::F(f) => int_vs_float(x, *f),
            _ => unreachable!(),
        },
        (None, Some(y)) => match a {
            N::F(f) => int_vs_float(y, *f).reverse(),
            _ => unreachable!(),
        },
        (None, None) => {
            let (x, y) = match (a, b) {
                (N::F(x), N::F(y)) => (*x, *y),
                _ => unreachable!(),
            };
            match (x.is_nan(), y.is_nan()) {
                (true, true) => Ordering::Equal,
                (true, false) => Ordering::Greater,
                (false, true) => Ordering::Less,
                _ => x.partial_cmp(&y).unwrap(),
            }
        }
    }
}

/// Null > Array > Object > String > Number > true > false
pub fn rank(m: &M) -> u8 {
    match m {
        M::Null => 7,
        M::Arr(_) => 6,
        M::Obj(_) => 5,
        M::Str(_) => 4,
        M::Num(_) => 3,
        M::Bool(true) => 2,
        M::Bool(false) => 1,
    }
}

/// the documented document order (C04)
pub fn doc_cmp(a: &M, b: &M) -> Ordering {
    let (ra, rb) = (rank(a), rank(b));
    if ra != rb {
        return ra.cmp(&rb);
    }
    match (a, b) {
        (M::Str(x), M::Str(y)) => x.as_bytes().cmp(y.as_bytes()),
        (M::Num(x), M::Num(y)) => num_cmp(x, y),
        (M::Arr(x), M::Arr(y)) => {
            for (p, q) in x.iter().zip(y.iter()) {
                let o = doc_cmp(p, q);
                if o != Ordering::Equal {
                    return o;
                }
            }
            x.len().cmp(&y.len())
        }
        (M::Obj(x), M::Obj(y)) => {
            for ((k1, v1), (k2, v2)) in x.iter().zip(y.iter()) {
                let o = k1.as_bytes().cmp(k2.as_bytes());
                if o != Ordering::Equal {
                    return o;
                }
                let o = doc_cmp(v1, v2);
                if o != Ordering::Equal {
                    return o;
                }
            }
            x.len().cmp(&y.len())
        }
        _ => Ordering::Equal,
    }
}

pub fn doc_eq(a: &M, b: &M) -> bool {
    doc_cmp(a, b) == Ordering::Equal
}

/// PostgreSQL @> (C12), equality of scalars being `doc_eq`
pub fn contains(a: &M, b: &M) -> bool {
    // a top-level array also contains a bare scalar equal to one of its elements
    if let (M::Arr(x), true) = (a, b.is_scalar()) {
        return x.iter().any(|e| e.is_scalar() && doc_eq(e, b));
    }
    contains_inner(a, b)
}

fn contains_inner(a: &M, b: &M) -> bool {
    match (a, b) {
        (M::Obj(x), M::Obj(y)) => y.iter().all(|(k, bv)| match x.get(k) {
            None => false,
            Some(av) => {
                if av.is_scalar() || bv.is_scalar() {
                    av.is_scalar() && bv.is_scalar() && doc_eq(av, bv)
                } else {
                    contains_inner(av, bv)
                }
            }
        }),
        (M::Arr(x), M::Arr(y)) => y.iter().all(|be| {
            if be.is_scalar() {
                x.iter().any(|ae| ae.is_scalar() && doc_eq(ae, be))
            } else {
                x.iter().any(|ae| ae.is_container() && contains_inner(ae, be))
            }
        }),
        (x, y) if x.is_scalar() && y.is_scalar() => doc_eq(x, y),
        _ => false,
    }
}

/// nearest-double check with exact integer arithmetic: is `f` the round-to-nearest,
/// ties-to-even image of the integer `v` (|v| < 2^64)?
pub fn is_nearest_double(v: i128, f: f64) -> bool {
    if !f.is_finite() || f.fract() != 0.0 || f.abs() >= 36893488147419103232.0 {
        return false;
    }
    let fi = f as i128;
    if fi == v {
        return true;
    }
    let up = next_up(f);
    let dn = next_down(f);
    let d = (fi - v).abs();
    let check = |g: f64| -> Option<i128> {
        if g.is_finite() && g.fract() == 0.0 && g.abs() < 36893488147419103232.0 {
            Some(((g as i128) - v).abs())
        } else {
            None // neighbour is fractional, hence closer only if v is between; handled below
        }
    };
    // all doubles near an integer that is not exactly representable are integers
    let (du, dd) = match (check(up), check(dn)) {
        (Some(a), Some(b)) => (a, b),
        _ => return false,
    };
    if d > du || d > dd {
        return false;
    }
    if d == du || d == dd {
        // tie: the chosen one must have an even mantissa
        return f.to_bits() & 1 == 0;
    }
    true
}

pub fn next_up(f: f64) -> f64 {
    if f.is_nan() || f == f64::INFINITY {
        return f;
    }
    if f == 0.0 {
        return f64::from_bits(1);
    }
    let b = f.to_bits();
    if f > 0.0 {
        f64::from_bits(b + 1)
    } else {
        f64::from_bits(b - 1)
    }
}
pub fn next_down(f: f64) -> f64 {
    -next_up(-f)
}

// ---- where two documents first differ, in comparison order ---------------------------

#[derive(Clone, Debug, PartialEq)]
pub enum Diff {
    Same,
    /// different kinds (rank) at this depth
    Kind { depth: usize },
    /// two strings (element values or object keys) differ
    Str { depth: usize, is_key: bool, proper_prefix: bool },
    /// two numbers with different values
    Num { depth: usize, same_f64_image: bool, cross_repr: bool },
    /// booleans differ (covered by Kind, since true/false have different ranks)
    /// containers equal on their common part, differing in length
    Len { depth: usize },
}

/// numbers that compare Equal but are stored differently (1 / 1.0 / Int64(1), 0 / -0.0)
pub fn has_equal_but_different_numbers(a: &M, b: &M) -> bool {
    match (a, b) {
        (M::Num(x), M::Num(y)) => num_cmp(x, y) == Ordering::Equal && !x.ident_eq(y),
        (M::Arr(x), M::Arr(y)) => x.iter().zip(y).any(|(p, q)| has_equal_but_different_numbers(p, q)),
        (M::Obj(x), M::Obj(y)) => x.values().zip(y.values()).any(|(p, q)| has_equal_but_different_numbers(p, q)),
        _ => false,
    }
}

/// is there, before the first difference, a pair 0 / -0.0 (equal values, different f64 image)?
pub fn first_diff(a: &M, b: &M) -> Diff {
    fn go(a: &M, b: &M, depth: usize) -> Diff {
        if rank(a) != rank(b) {
            return Diff::Kind { depth };
        }
        match (a, b) {
            (M::Str(x), M::Str(y)) => {
                if x == y {
                    Diff::Same
                } else {
                    let pp = x.as_bytes().starts_with(y.as_bytes()) || y.as_bytes().starts_with(x.as_bytes());
                    Diff::Str { depth, is_key: false, proper_prefix: pp }
                }
            }
            (M::Num(x), M::Num(y)) => {
                if num_cmp(x, y) == Ordering::Equal {
                    Diff::Same
                } else {
                    let fx = x.to_lib().as_f64().unwrap();
                    let fy = y.to_lib().as_f64().unwrap();
                    Diff::Num {
                        depth,
                        same_f64_image: fx.to_bits() == fy.to_bits() || (fx == fy),
                        cross_repr: std::mem::discriminant(x) != std::mem::discriminant(y),
                    }
                }
            }
            (M::Arr(x), M::Arr(y)) => {
                for (p, q) in x.iter().zip(y) {
                    let d = go(p, q, depth + 1);
                    if d != Diff::Same {
                        return d;
                    }
                }
                if x.len() != y.len() {
                    Diff::Len { depth }
                } else {
                    Diff::Same
                }
            }
            (M::Obj(x), M::Obj(y)) => {
                for ((k1, v1), (k2, v2)) in x.iter().zip(y) {
                    if k1 != k2 {
                        let pp = k1.as_bytes().starts_with(k2.as_bytes()) || k2.as_bytes().starts_with(k1.as_bytes());
                        return Diff::Str { depth: depth + 1, is_key: true, proper_prefix: pp };
                    }
                    let d = go(v1, v2, depth + 1);
                    if d != Diff::Same {
                        return d;
                    }
                }
                if x.len() != y.len() {
                    Diff::Len { depth }
                } else {
                    Diff::Same
                }
            }
            _ => Diff::Same,
        }
    }
    go(a, b, 0)
}


/// The comparable key as its format is documented in the source (depth byte, level byte,
/// then string bytes / the order-preserving image of the number as a double; containers
/// list their children one level deeper; object members as key then value). Used only to
/// recognise the known findings of C14 exactly: a disagreement is a known one only when
/// the library's keys are these keys.
pub fn ref_key(m: &M) -> Vec<u8> {
    fn go(m: &M, depth: u8, out: &mut Vec<u8>) {
        out.push(depth);
        match m {
            M::Null => out.push(7),
            M::Bool(true) => out.push(2),
            M::Bool(false) => out.push(1),
            M::Str(s) => {
                out.push(4);
                out.extend_from_slice(s.as_bytes());
            }
            M::Num(n) => {
                out.push(3);
                let f = match n {
                    N::I(v) => *v as f64,
                    N::U(v) => *v as f64,
                    N::F(f) => *f,
                };
                // the encoding keeps no NaN payload: every NaN is the canonical one
                let f = if f == 0.0 { 0.0 } else if f.is_nan() { f64::NAN } else { f };
                let s = f.to_bits() as i64;
                let v = s ^ (((s >> 63) as u64) >> 1) as i64;
                let mut b = v.to_be_bytes();
                b[0] ^= 0x80;
                out.extend_from_slice(&b);
            }
            M::Arr(a) => {
                out.push(6);
                for x in a {
                    go(x, depth.wrapping_add(1), out);
                }
            }
            M::Obj(o) => {
                out.push(5);
                for (k, v) in o {
                    out.push(depth.wrapping_add(1));
                    out.push(4);
                    out.extend_from_slice(k.as_bytes());
                    go(v, depth.wrapping_add(1), out);
                }
            }
        }
    }
    let mut out = vec![];
    go(m, 0, &mut out);
    out
}
