//! Ten-line tree versions of every accessor, editor and set function (C05, C06, C13),
//! written from the property statements and the functions' doc comments.

use crate::jser::Jser;
use crate::model::{M, N};
use serde_json::{json, Value as J};
use std::collections::BTreeMap;

#[derive(Clone, Debug, PartialEq)]
pub enum KP {
    Index(i32),
    Name(String),
    Quoted(String),
}
impl Jser for KP {
    fn to_j(&self) -> J {
        match self {
            KP::Index(i) => json!({"index": i.to_string()}),
            KP::Name(s) => json!({"name": s}),
            KP::Quoted(s) => json!({"quoted": s}),
        }
    }
    fn from_j(j: &J) -> Result<Self, String> {
        if let Some(i) = j.get("index").and_then(|x| x.as_str()) {
            return i.parse().map(KP::Index).map_err(|e| format!("{e}"));
        }
        if let Some(s) = j.get("name").and_then(|x| x.as_str()) {
            return Ok(KP::Name(s.to_string()));
        }
        if let Some(s) = j.get("quoted").and_then(|x| x.as_str()) {
            return Ok(KP::Quoted(s.to_string()));
        }
        Err("bad key path element".into())
    }
}
impl KP {
    pub fn to_lib(&self) -> jsonb::keypath::KeyPath<'static> {
        match self {
            KP::Index(i) => jsonb::keypath::KeyPath::Index(*i),
            KP::Name(s) => jsonb::keypath::KeyPath::Name(std::borrow::Cow::Owned(s.clone())),
            KP::Quoted(s) => jsonb::keypath::KeyPath::QuotedName(std::borrow::Cow::Owned(s.clone())),
        }
    }
}

/// index with negatives counting from the end; None when out of range
pub fn resolve_index(len: usize, idx: i64) -> Option<usize> {
    let l = len as i64;
    let i = if idx < 0 { l + idx } else { idx };
    if i >= 0 && i < l {
        Some(i as usize)
    } else {
        None
    }
}

// ---- accessors ----------------------------------------------------------------

pub fn array_length(m: &M) -> Option<usize> {
    match m {
        M::Arr(a) => Some(a.len()),
        _ => None,
    }
}
pub fn get_by_index(m: &M, i: usize) -> Option<M> {
    match m {
        M::Arr(a) => a.get(i).cloned(),
        _ => None,
    }
}
pub fn get_by_name(m: &M, name: &str, ignore_case: bool) -> Option<M> {
    match m {
        M::Obj(o) => {
            if let Some(v) = o.get(name) {
                return Some(v.clone());
            }
            if ignore_case {
                for (k, v) in o {
                    if k.eq_ignore_ascii_case(name) {
                        return Some(v.clone());
                    }
                }
            }
            None
        }
        _ => None,
    }
}
pub fn get_by_keypath(m: &M, path: &[KP]) -> Option<M> {
    let mut cur = m;
    for p in path {
        cur = match (p, cur) {
            (KP::Index(i), M::Arr(a)) => &a[resolve_index(a.len(), *i as i64)?],
            (KP::Name(n) | KP::Quoted(n), M::Obj(o)) => o.get(n)?,
            _ => return None,
        };
    }
    Some(cur.clone())
}
pub fn object_keys(m: &M) -> Option<M> {
    match m {
        M::Obj(o) => Some(M::Arr(o.keys().map(|k| M::Str(k.clone())).collect())),
        _ => None,
    }
}
pub fn object_each(m: &M) -> Option<Vec<(String, M)>> {
    match m {
        M::Obj(o) => Some(o.iter().map(|(k, v)| (k.clone(), v.clone())).collect()),
        _ => None,
    }
}
pub fn array_values(m: &M) -> Option<Vec<M>> {
    match m {
        M::Arr(a) => Some(a.clone()),
        _ => None,
    }
}
pub fn exists_key(m: &M, key: &str) -> bool {
    match m {
        M::Obj(o) => o.contains_key(key),
        M::Arr(a) => a.iter().any(|x| matches!(x, M::Str(s) if s == key)),
        _ => false,
    }
}
pub fn exists_all_keys(m: &M, keys: &[Vec<u8>]) -> bool {
    keys.iter().all(|k| match std::str::from_utf8(k) {
        Ok(s) => exists_key(m, s),
        Err(_) => false,
    })
}
pub fn exists_any_keys(m: &M, keys: &[Vec<u8>]) -> bool {
    keys.iter().any(|k| match std::str::from_utf8(k) {
        Ok(s) => exists_key(m, s),
        Err(_) => false,
    })
}
/// does any key or string value, at any depth, satisfy `f`
pub fn traverse_check_string(m: &M, f: &dyn Fn(&[u8]) -> bool) -> bool {
    match m {
        M::Str(s) => f(s.as_bytes()),
        M::Arr(a) => a.iter().any(|x| traverse_check_string(x, f)),
        M::Obj(o) => o.iter().any(|(k, v)| f(k.as_bytes()) || traverse_check_string(v, f)),
        _ => false,
    }
}

// ---- editors --------------------------------------------------------------------

#[derive(Clone, Debug, PartialEq, Eq)]
pub enum EditErr {
    InvalidJsonType,
    InvalidObject,
    ObjectDuplicateKey,
}

fn as_list(m: &M) -> Vec<M> {
    match m {
        M::Arr(a) => a.clone(),
        x => vec![x.clone()],
    }
}

pub fn concat(a: &M, b: &M) -> M {
    match (a, b) {
        (M::Obj(x), M::Obj(y)) => {
            let mut r = x.clone();
            for (k, v) in y {
                r.insert(k.clone(), v.clone());
            }
            M::Obj(r)
        }
        _ => {
            let mut r = as_list(a);
            r.extend(as_list(b));
            M::Arr(r)
        }
    }
}
pub fn delete_by_name(m: &M, name: &str) -> Result<M, EditErr> {
    match m {
        M::Obj(o) => {
            let mut r = o.clone();
            r.remove(name);
            Ok(M::Obj(r))
        }
        M::Arr(a) => Ok(M::Arr(a.iter().filter(|x| !matches!(x, M::Str(s) if s == name)).cloned().collect())),
        _ => Err(EditErr::InvalidJsonType),
    }
}
pub fn delete_by_index(m: &M, idx: i32) -> Result<M, EditErr> {
    match m {
        M::Arr(a) => {
            let mut r = a.clone();
            if let Some(i) = resolve_index(a.len(), idx as i64) {
                r.remove(i);
            }
            Ok(M::Arr(r))
        }
        _ => Err(EditErr::InvalidJsonType),
    }
}
/// returns None when the path does not resolve (the edit is then a no-op)
fn delete_path(m: &M, path: &[KP]) -> Option<M> {
    let (head, rest) = path.split_first()?;
    match (head, m) {
        (KP::Index(i), M::Arr(a)) => {
            let i = resolve_index(a.len(), *i as i64)?;
            let mut r = a.clone();
            if rest.is_empty() {
                r.remove(i);
            } else {
                r[i] = delete_path(&a[i], rest)?;
            }
            Some(M::Arr(r))
        }
        (KP::Name(n) | KP::Quoted(n), M::Obj(o)) => {
            let mut r = o.clone();
            if rest.is_empty() {
                r.remove(n);
            } else {
                // a missing key under a longer path: nothing to delete
                let sub = delete_path(o.get(n)?, rest)?;
                r.insert(n.clone(), sub);
            }
            Some(M::Obj(r))
        }
        _ => None,
    }
}
pub fn delete_by_keypath(m: &M, path: &[KP]) -> Result<M, EditErr> {
    if m.is_scalar() {
        return Err(EditErr::InvalidJsonType);
    }
    Ok(delete_path(m, path).unwrap_or_else(|| m.clone()))
}
pub fn array_insert(m: &M, pos: i32, new: &M) -> M {
    let mut l = as_list(m);
    let len = l.len() as i64;
    let p = pos as i64;
    let i = if p < 0 { len + p } else { p }.clamp(0, len) as usize;
    l.insert(i, new.clone());
    M::Arr(l)
}
pub fn object_insert(m: &M, key: &str, new: &M, update: bool) -> Result<M, EditErr> {
    match m {
        M::Obj(o) => {
            if o.contains_key(key) && !update {
                return Err(EditErr::ObjectDuplicateKey);
            }
            let mut r = o.clone();
            r.insert(key.to_string(), new.clone());
            Ok(M::Obj(r))
        }
        _ => Err(EditErr::InvalidObject),
    }
}
pub fn object_delete(m: &M, keys: &[String]) -> Result<M, EditErr> {
    match m {
        M::Obj(o) => Ok(M::Obj(o.iter().filter(|(k, _)| !keys.contains(k)).map(|(k, v)| (k.clone(), v.clone())).collect())),
        _ => Err(EditErr::InvalidObject),
    }
}
pub fn object_pick(m: &M, keys: &[String]) -> Result<M, EditErr> {
    match m {
        M::Obj(o) => Ok(M::Obj(o.iter().filter(|(k, _)| keys.contains(k)).map(|(k, v)| (k.clone(), v.clone())).collect())),
        _ => Err(EditErr::InvalidObject),
    }
}
pub fn strip_nulls(m: &M) -> M {
    match m {
        M::Arr(a) => M::Arr(a.iter().map(strip_nulls).collect()),
        M::Obj(o) => M::Obj(
            o.iter().filter(|(_, v)| !matches!(v, M::Null)).map(|(k, v)| (k.clone(), strip_nulls(v))).collect(),
        ),
        x => x.clone(),
    }
}
pub fn build_object(parts: &[(String, M)]) -> M {
    let mut o = BTreeMap::new();
    for (k, v) in parts {
        o.insert(k.clone(), v.clone());
    }
    M::Obj(o)
}

// ---- list / multiset algebra (C13): identity = same value in the same encoding ---

fn ident(m: &M) -> Vec<u8> {
    m.enc()
}
pub fn array_distinct(m: &M) -> M {
    let mut seen: std::collections::BTreeSet<Vec<u8>> = Default::default();
    let mut out = vec![];
    for x in as_list(m) {
        if seen.insert(ident(&x)) {
            out.push(x);
        }
    }
    M::Arr(out)
}
/// (intersection, except): each element of `a` goes to the intersection as many times
/// as it also occurs in `b`, to the rest otherwise
pub fn array_partition(a: &M, b: &M) -> (M, M) {
    let mut pool: BTreeMap<Vec<u8>, usize> = BTreeMap::new();
    for y in as_list(b) {
        *pool.entry(ident(&y)).or_insert(0) += 1;
    }
    let (mut inter, mut rest) = (vec![], vec![]);
    for x in as_list(a) {
        match pool.get_mut(&ident(&x)) {
            Some(c) if *c > 0 => {
                *c -= 1;
                inter.push(x);
            }
            _ => rest.push(x),
        }
    }
    (M::Arr(inter), M::Arr(rest))
}
pub fn array_overlap(a: &M, b: &M) -> bool {
    let bl: std::collections::BTreeSet<Vec<u8>> = as_list(b).iter().map(ident).collect();
    as_list(a).iter().any(|x| bl.contains(&ident(x)))
}

// ---- casts --------------------------------------------------------------------------

pub fn as_num(m: &M) -> Option<N> {
    match m {
        M::Num(n) => Some(n.norm()),
        _ => None,
    }
}
pub fn as_i64(m: &M) -> Option<i64> {
    match as_num(m)? {
        N::I(v) => Some(v),
        N::U(v) if v <= i64::MAX as u64 => Some(v as i64),
        _ => None,
    }
}
pub fn as_u64(m: &M) -> Option<u64> {
    match as_num(m)? {
        N::U(v) => Some(v),
        N::I(v) if v >= 0 => Some(v as u64),
        _ => None,
    }
}
