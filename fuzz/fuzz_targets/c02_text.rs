#![no_main]
//! C02: differential oracle (library parser vs relaxed reference parser) on raw bytes.
use libfuzzer_sys::fuzz_target;
use vcore::engine::Obs;
use vcore::jser::Bytes;
fuzz_target!(|data: &[u8]| {
    if let Err(m) = vcore::props::c02::check_bytes(&Bytes(data.to_vec()), &mut Obs::default()) {
        panic!("C02 violation: {m}");
    }
});
