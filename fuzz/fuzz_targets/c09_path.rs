#![no_main]
//! C09: the JSONPath parser never panics; accepted input obeys the print/parse law.
use libfuzzer_sys::fuzz_target;
use vcore::engine::Obs;
use vcore::jser::Bytes;
fuzz_target!(|data: &[u8]| {
    if let Err(m) = vcore::props::c09::check_raw(&Bytes(data.to_vec()), &mut Obs::default()) {
        panic!("C09 violation: {m}");
    }
});
