#![no_main]
//! C08: (document, path) decoded from the fuzzer's bytes; model evaluator as the oracle.
use libfuzzer_sys::fuzz_target;
use vcore::engine::Obs;
fuzz_target!(|data: &[u8]| {
    if let Some(case) = vcore::props::c08::case_from_bytes(data) {
        if let Err(m) = vcore::props::c08::check(&case, &mut Obs::default()) {
            panic!("C08 violation: {m}");
        }
    }
});
