#![no_main]
//! C16: the key-path parser never panics.
use libfuzzer_sys::fuzz_target;
use vcore::engine::Obs;
use vcore::jser::Bytes;
fuzz_target!(|data: &[u8]| {
    if let Err(m) = vcore::props::c16::check_raw(&Bytes(data.to_vec()), &mut Obs::default()) {
        panic!("C16 violation: {m}");
    }
});
