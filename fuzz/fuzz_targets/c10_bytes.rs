#![no_main]
//! C10: decoders never panic and never hand out ill-formed strings.
use libfuzzer_sys::fuzz_target;
use vcore::engine::Obs;
use vcore::jser::Bytes;
fuzz_target!(|data: &[u8]| {
    if let Err(m) = vcore::props::c10::check_bytes(&Bytes(data.to_vec()), &mut Obs::default()) {
        panic!("C10 violation: {m}");
    }
});
